"""Per-property configuration: which runs a tier consists of, coverage minima, evidence texts."""

COMMON_ASSUME = [
    "oracle::rules (independent mailbox implementation of the FIDE move rules) is correct; it re-validates itself against published perft constants in every C01 run",
    "the harness reads weechess values only through public accessors",
]


def simple(quick_budget=40, thorough_budget=600, **kw):
    def runs(tier):
        r = {"name": "main", "shards": 16, "budget": quick_budget if tier == "quick" else thorough_budget}
        r.update(kw)
        return [r]
    return runs


PROPS = {}

PROPS["C01"] = {
    "runs": lambda tier: [{"name": "main", "shards": 16, "bins": ["uci-release"], "budget": 40 if tier == "quick" else 900, "timeout": 300 if tier == "quick" else 4000}],
    "rule": "positions come from the adversarial corpus, the exhaustive castling family, the en-passant family, seeded random play and random legal-position sampling; each is judged by comparing the multiset of generated moves (with all attributes) with the oracle's legal set, plus perft vs oracle/published constants; a case is counted as distinct non-trivial when its oracle key (placement, side, rights, legal ep) is new AND at least one pseudo-legal move was rejected, the side is in check, or a castling/en-passant/promotion move is legal",
    "technique": "runtime monitoring: differential oracle (independent rules implementation) over generated positions",
    "assumptions": COMMON_ASSUME,
    "min": {"quick": {"evaluations": 100000, "distinct": 20000, "ep_pseudo_but_illegal": 100, "castle_legal": 1000}, "thorough": {"evaluations": 5000000, "distinct": 500000}},
}

PROPS["C02"] = {
    "runs": simple(40, 900),
    "rule": "every legal move of corpus/family/sampled positions and of seeded random games played in lock-step (weechess advances through its own successors) is judged: all accessor-visible fields of the successor vs the oracle's make-move; legal coordinate triples must select that successor, non-legal triples (random, promotion without letter, pseudo-legal-but-illegal) must be rejected; whole move histories are replayed through the coordinate interface. Distinct non-trivial = distinct (position key, move) where the move is a capture, castle, en passant, promotion, double step, a king/rook move with rights present, or the halfmove clock is above 90",
    "technique": "runtime monitoring: lock-step differential oracle over move histories",
    "assumptions": COMMON_ASSUME,
    "min": {"quick": {"evaluations": 1000000, "distinct": 100000, "en_passant_moves": 500, "castle_moves": 2000, "rights_lost_by_rook_capture_on_corner": 200}, "thorough": {"evaluations": 50000000}},
}

PROPS["C05"] = {
    "runs": simple(40, 900),
    "rule": "Evaluator::evaluate is called for both perspectives and plies {0,1,2,5,9,10,11,40,200} on: all legal K+X vs K positions (quick: a seed-dependent 1/8 slice; thorough: all, half of them colour-mirrored), a terminal-biased sampler (boxed-in king, kept only when the oracle finds no legal move), corpus, random play and random sampling; the oracle classifies mate/stalemate/has-move. Distinct non-trivial = distinct positions that are checkmate, stalemate, in check with an escape, or have an immobile king but other moves",
    "technique": "runtime monitoring: oracle classification (independent rules) of evaluator outputs over enumerated and sampled positions",
    "assumptions": COMMON_ASSUME + ["positions with a legal move and material imbalance >= 90 pawn units are skipped, as the property's quantifier states"],
    "min": {"quick": {"evaluations": 1000000, "checkmates": 10000, "stalemates": 2000, "checkmates_with_empty_king_neighbour": 5000}, "thorough": {"evaluations": 30000000}},
}

PROPS["C13"] = {
    "runs": simple(40, 900),
    "rule": "for each position p and ply in {0,1,5,9,10,11,40}: evaluate(p,White) == -evaluate(p,Black) and evaluate(mirror(p), c) == evaluate(p, !c) with the oracle's mirror (flip ranks, swap colours, side, rights, ep); positions from corpus, terminal sampler, 3-man families, random play, random sampling. Distinct non-trivial = distinct positions whose placement is not its own mirror image",
    "technique": "runtime monitoring: metamorphic oracle (negation and colour mirror) over generated positions",
    "assumptions": COMMON_ASSUME,
    "min": {"quick": {"evaluations": 1000000, "distinct": 300000}, "thorough": {"evaluations": 30000000}},
}
