#!/bin/sh
# usage: lib/try_mutant.sh <patch.diff> <Cxx> [<Cyy> ...]
# Applies a seeded change to /repo, runs the quick tier of the given checks, and ALWAYS restores /repo.
patch="$1"; shift
cd /verif || exit 3
if ! git -C /repo diff --quiet; then echo "/repo has uncommitted changes; refusing"; exit 3; fi
git -C /repo apply "$patch" || { echo "patch does not apply"; exit 3; }
trap 'git -C /repo checkout -- . ; git -C /repo clean -fdq' EXIT INT TERM
for c in "$@"; do
  out=$(VERIF_NO_EVIDENCE=1 ./check "$c" 2>&1); rc=$?
  echo "== $c rc=$rc"
  echo "$out" | grep -E "VIOLATION|INCONCLUSIVE|KNOWN-FINDING|^\[C" | cut -c1-300 | head -8
  echo "$out" | grep -E "^  [a-z]" | cut -c1-400 | head -3
done
