#!/bin/sh
# usage: lib/try_mutant.sh <patch.diff> <Cxx> [<Cyy> ...]
# Applies a seeded change to a scratch worktree of /repo (never to /repo itself), runs the quick tier of the
# given checks against it (VERIF_REPO / VERIF_TARGET), and removes the worktree with its build output.
patch=$(readlink -f "$1"); shift
W=/tmp/wt-mut-$$
cd /verif || exit 3
git -C /repo worktree add -q --detach $W HEAD || exit 3
trap 'git -C /repo worktree remove --force $W >/dev/null 2>&1; rm -rf $W' EXIT INT TERM
git -C $W apply "$patch" || { echo "patch does not apply"; exit 3; }
for c in "$@"; do
  out=$(VERIF_REPO=$W VERIF_TARGET=$W/vt VERIF_NO_EVIDENCE=1 ./check "$c" 2>&1); rc=$?
  echo "== $c rc=$rc"
  echo "$out" | grep -E "VIOLATION|INCONCLUSIVE|KNOWN-FINDING|^\[C" | cut -c1-300 | head -6
  echo "$out" | grep -E "^  [a-z]" | cut -c1-400 | head -3
done
