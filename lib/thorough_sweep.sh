#!/bin/sh
# runs the thorough tier of the given checks one after another on the unchanged tree, logging to logs/thorough-<id>.log
cd /verif
for c in "$@"; do
  /usr/bin/time -f "$c %es" env VERIF_NO_EVIDENCE=1 ./check $c --tier thorough > logs/thorough-$c.log 2>&1
  echo "$c rc=$? $(grep -E 'VIOLATION|INCONCLUSIVE|KNOWN' logs/thorough-$c.log | head -3 | cut -c1-200)" >> logs/thorough-summary.log
done
