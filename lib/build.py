"""Builds everything from /repo's current working tree (cargo's change detection makes this a
no-op when nothing changed). Every target dir lives under /verif/target (git-ignored)."""
import os, subprocess, time

VERIF = os.path.dirname(os.path.dirname(os.path.abspath(__file__)))
# Registered checks always build from /repo. VERIF_REPO / VERIF_TARGET exist only so that seeded
# changes can be tried on a scratch worktree while /repo stays untouched (lib/try_mutant.sh).
REPO = os.environ.get("VERIF_REPO", "/repo")
TARGET = os.environ.get("VERIF_TARGET", os.path.join(VERIF, "target"))
HARNESS = os.path.join(VERIF, "harness")
if REPO != "/repo":
    import shutil
    _src = os.path.join(TARGET, "harness-src")
    os.makedirs(TARGET, exist_ok=True)
    subprocess.run(["rsync", "-a", "--delete", "--exclude", "target", HARNESS + "/", _src + "/"], check=True)
    _ct = open(os.path.join(_src, "Cargo.toml")).read().replace('"/repo/', '"' + REPO + '/')
    open(os.path.join(_src, "Cargo.toml"), "w").write(_ct)
    # the harness includes ../corpus/fens.txt
    os.makedirs(os.path.join(TARGET, "corpus"), exist_ok=True)
    shutil.copy(os.path.join(VERIF, "corpus", "fens.txt"), os.path.join(TARGET, "corpus", "fens.txt"))
    HARNESS = _src

BASE_ENV = {"CARGO_NET_OFFLINE": "true", "CARGO_TERM_COLOR": "never"}


def _run(cmd, cwd, env_extra, log, label):
    env = dict(os.environ)
    env.update(BASE_ENV)
    env.update(env_extra)
    t0 = time.time()
    p = subprocess.run(cmd, cwd=cwd, env=env, stdout=subprocess.PIPE, stderr=subprocess.STDOUT)
    dt = time.time() - t0
    if dt > 3:
        log(f"[build] {label}: {dt:.0f}s rc={p.returncode}")
    if p.returncode != 0:
        return False, p.stdout.decode("utf8", "replace")[-3000:]
    return True, ""


def ensure(what, log):
    """returns (ok, path, message)"""
    if what == "checked":
        ok, msg = _run(["cargo", "build", "--release"], HARNESS, {"CARGO_TARGET_DIR": f"{TARGET}/checked"}, log, what)
        return ok, f"{TARGET}/checked/release/wv", msg
    if what == "plain":
        ok, msg = _run(["cargo", "build", "--profile", "plain"], HARNESS, {"CARGO_TARGET_DIR": f"{TARGET}/checked"}, log, what)
        return ok, f"{TARGET}/checked/plain/wv", msg
    if what == "debug":
        # unoptimised build of the harness with the two library crates (stack depth, overflow checks, debug assertions as
        # in `cargo test`): only the string readers are driven with it
        ok, msg = _run(["cargo", "build"], HARNESS, {"CARGO_TARGET_DIR": f"{TARGET}/checked"}, log, what)
        return ok, f"{TARGET}/checked/debug/wv", msg
    if what == "uci-release":
        ok, msg = _run(["cargo", "build", "--release", "-p", "weechess_cli"], REPO, {"CARGO_TARGET_DIR": f"{TARGET}/uci"}, log, what)
        return ok, f"{TARGET}/uci/release/weechess", msg
    if what == "uci-checked":
        ok, msg = _run(["cargo", "build", "--release", "-p", "weechess_cli"], REPO,
                       {"CARGO_TARGET_DIR": f"{TARGET}/uci-checked", "CARGO_PROFILE_RELEASE_OVERFLOW_CHECKS": "true",
                        "CARGO_PROFILE_RELEASE_DEBUG_ASSERTIONS": "true"}, log, what)
        return ok, f"{TARGET}/uci-checked/release/weechess", msg
    if what == "tsan":
        ok, msg = _run(["cargo", "+nightly", "build", "--release", "-Zbuild-std", "--target", "x86_64-unknown-linux-gnu"], HARNESS,
                       {"CARGO_TARGET_DIR": f"{TARGET}/tsan", "RUSTFLAGS": "-Zsanitizer=thread", "CARGO_PROFILE_RELEASE_DEBUG": "1"}, log, what)
        return ok, f"{TARGET}/tsan/x86_64-unknown-linux-gnu/release/wv", msg
    if what == "miri":
        # built (interpreted) at run time by the wrapper; make sure the sysroot exists
        ok, msg = _run(["cargo", "+nightly", "miri", "setup"], HARNESS, {"CARGO_TARGET_DIR": f"{TARGET}/miri"}, log, what)
        return ok, os.path.join(VERIF, "lib", "miri_wv"), msg  # (the Miri wrapper always uses /verif/harness)
    return False, "", f"unknown build target {what}"


def setup(log):
    rc = 0
    for what in ["checked", "plain", "debug", "uci-release", "uci-checked", "tsan", "miri"]:
        ok, path, msg = ensure(what, log)
        log(f"[setup] {what}: {'ok' if ok else 'FAILED'} {path}")
        if not ok:
            log(msg)
            rc = 1
    # exact 4-man tables for C06 (oracle only, independent of /repo); optional: C06 falls back to the solver
    if rc == 0:
        t0 = time.time()
        p = subprocess.run([f"{TARGET}/checked/release/wv", "tb4-build"], stdout=subprocess.PIPE, stderr=subprocess.STDOUT)
        for l in p.stdout.decode("utf8", "replace").splitlines():
            if l.startswith("tb4"):
                log("[setup] " + l)
        log(f"[setup] 4-man tables: {time.time() - t0:.0f}s")
    return rc
