#!/bin/sh
# usage: ingest_mutant.sh <prop> <a|b> '<demo command (cargo test ... without CARGO_TARGET_DIR)>' <checks...>
# 1. confirms the mutant in /tmp/wt-verify, 2. runs the given checks against it, 3. prints a summary.
P=$1; M=$2; CMD=$3; shift 3
SRC=/tmp/wt-$P
echo "########## $P-$M"
/verif/lib/confirm_mutant.sh $SRC/mutant-$M.diff $SRC/mutant-$M-demo.diff "$CMD" 2>&1
/verif/lib/try_mutant.sh $SRC/mutant-$M.diff "$@" 2>&1
