#!/bin/sh
# usage: ingest_mutant.sh <srcdir> <a|b|c> '<demo command>' <checks...>
SRC=$1; M=$2; CMD=$3; shift 3
echo "########## $SRC $M"
/verif/lib/confirm_mutant.sh $SRC/mutant-$M.diff $SRC/mutant-$M-demo.diff "$CMD" 2>&1
/verif/lib/try_mutant.sh $SRC/mutant-$M.diff "$@" 2>&1
