#!/usr/bin/env python3
import json, glob, os
rows = []
for f in sorted(glob.glob("/verif/seeded/*/meta.json")):
    m = json.load(open(f))
    rows.append(m)
out = ["# Seeded changes", "",
       "Each directory holds `patch.diff` (the change to ryanwebber/weechess-rs), `demo.diff` (a demonstration that fails with the change and passes without it), `meta.json` and the author's notes.",
       "All were written by independent sub-agents that saw only the property text and a scratch worktree; each was re-confirmed with `lib/confirm_mutant.sh` (43 tests pass with the change, demonstration fails with it and passes without it) and then run against the checks with `lib/try_mutant.sh` (quick tier, /repo restored afterwards).", "",
       "| id | property | needs to manifest | caught by (quick tier) | note |", "|---|---|---|---|---|"]
for m in rows:
    out.append(f"| {m['id']} | {m['breaks_property']} | {m['needs_to_manifest']} | {', '.join(m['caught_by']) or '**missed**'} | {m.get('note','')} |")
open("/verif/seeded/README.md", "w").write("\n".join(out) + "\n")
print(len(rows), "seeded changes")
