#!/bin/sh
# usage: confirm_mutant.sh <patch.diff> <demo.diff> '<demo command run from the worktree root>'
# Confirms in the scratch worktree /tmp/wt-verify: tests pass with the patch, demo fails with it, passes without.
W=/tmp/wt-verify
export CARGO_TARGET_DIR=$W/target CARGO_NET_OFFLINE=true RUST_BACKTRACE=0
cd $W || exit 3
git checkout -q -- . ; git clean -fdq -e target
git apply "$1" || { echo "PATCH DOES NOT APPLY"; exit 3; }
echo "--- 43 tests with the change:"
cargo test --workspace --no-fail-fast --offline 2>&1 | grep -E "^test result|FAILED|panicked" | head -8
git apply "$2" || { echo "DEMO DOES NOT APPLY"; exit 3; }
echo "--- demonstration WITH the change (should fail):"
( eval "timeout 900 $3" ) > $W/demo.out 2>&1; echo "rc=$?"; grep -E "^test result|^test .* (FAILED|ok)|FAIL|PASS|exit=" $W/demo.out | head -8; tail -2 $W/demo.out | cut -c1-200
git apply -R "$1" || { echo "cannot revert patch"; exit 3; }
echo "--- demonstration WITHOUT the change (should pass):"
( eval "timeout 900 $3" ) > $W/demo.out 2>&1; echo "rc=$?"; grep -E "^test result|^test .* (FAILED|ok)|FAIL|PASS|exit=" $W/demo.out | head -8
rm -f $W/demo.out
git checkout -q -- . ; git clean -fdq -e target
