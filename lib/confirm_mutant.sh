#!/bin/sh
# usage: confirm_mutant.sh <patch.diff> <demo.diff> '<demo command run from the worktree root>'
# Confirms in the scratch worktree /tmp/wt-verify: tests pass with the patch, demo fails with it, passes without.
W=/tmp/wt-verify
export CARGO_TARGET_DIR=$W/target CARGO_NET_OFFLINE=true
cd $W || exit 3
git checkout -q -- . ; git clean -fdq -e target
git apply "$1" || { echo "PATCH DOES NOT APPLY"; exit 3; }
echo "--- 43 tests with the change:"
cargo test --workspace --no-fail-fast --offline 2>&1 | grep -E "^test result|FAILED|panicked" | head -8
git apply "$2" || { echo "DEMO DOES NOT APPLY"; exit 3; }
echo "--- demonstration WITH the change (should fail):"
( eval "timeout 600 $3" ) 2>&1 | grep -E "^test result|FAILED|FAIL|PASS|panicked|error(\[|:)|failed|passed|ok$|exit=" | head -8
git apply -R "$1" || { echo "cannot revert patch"; exit 3; }
echo "--- demonstration WITHOUT the change (should pass):"
( eval "timeout 600 $3" ) 2>&1 | grep -E "^test result|FAILED|FAIL|PASS|panicked|error(\[|:)|failed|passed|ok$|exit=" | head -8
git checkout -q -- . ; git clean -fdq -e target
