#!/usr/bin/env python3
"""Writes /verif/MANIFEST.json from lib/props.py (one source of truth for runs and texts)."""
import json, os, subprocess, sys
VERIF = os.path.dirname(os.path.dirname(os.path.abspath(__file__)))
sys.path.insert(0, os.path.join(VERIF, "lib"))
import props

LEVEL_TEXT = {
    "C01": "Held on every generated position: differential comparison of the complete move list (all attributes) and of perft counts with an independent rules implementation that is itself validated against published perft constants. Exploration is the honest level: the quantifier is 'all legal positions'; families with known special-case structure (castling, en passant) are enumerated exhaustively, the rest is sampled by the hundred thousand.",
    "C02": "Held on every generated (position, move) and move history: every accessor-visible field of every successor against the independent make-move, plus acceptance/rejection of coordinate triples. Exploration over lock-step random games and families.",
    "C03": "Held on every observed search: each reported line replayed against the independent legal-move sets, at least one report per search, no panic, over generated histories of the reused memory (rights/ep pairs, chains, jumps, interrupted searches), 1-32 workers, tiny to large tables, and seeded perturbation of the schedule at the shared-table access points. Universal claims over schedules cannot be settled by execution; evidence lists the distinct interleaving signatures seen.",
    "C04": "Held on every observed search: bounded progress after Stop measured on hooked node / cancellation events (logical bounds, no deadlines), self-termination of depth-limited searches, no panic on any thread, terminal roots, artifact reuse. One open known finding (F11, unbounded unpolled capture search) is reported as KNOWN-FINDING.",
    "C05": "Held on all enumerated K+X vs K positions (thorough: all ~2 million) and on tens of thousands of sampled terminal and non-terminal positions: the independent rules classify each position, the evaluator's score is compared for both perspectives and nine ply values.",
    "C06": "Held on every observed search: exact tablebase values decide soundness of every mate claim and completeness for mates within 5 plies in 3-man endings; an exhaustive solver does the same beyond the tablebases. Sampling over roots, seeds, worker counts and perturbed schedules.",
    "C07": "Held on every observed session: a session automaton judges the ordered event log of the real binary (exactly one legal bestmove per go, position tracking, readyok while searching, exit status), with order-based verdicts.",
    "C08": "Held on every generated pair under several hasher seeds: must-equal pairs (incl. transpositions played through the engine and recurrences) and one-component must-differ pairs, plus a global collision table.",
    "C09": "Complete enumeration of the quantifier's finite space (all squares x all ray subsets, with noise) against a geometric ray walk: on the current tree this is an exhaustive check of the tables, reported at exploration level because the deciding step is still execution of lookups.",
    "C10": "Held on every generated object and query/clone order: all answers compared with geometric attack sets.",
    "C11": "Held on every reached position and every generated canonical string (independent FEN writer).",
    "C12": "Held on every generated spelling, negative case and book token (independent SAN writer).",
    "C13": "Held on every generated position: exact integer equality under negation and colour mirror.",
    "C14": "Held on every generated string in two build profiles and on every hostile line sent to the two binaries; a panic anywhere or a silent process is a violation.",
    "C15": "Held on every sequential history (exact bucket-level audit) and every recorded concurrent history (offline per-key checker with unique values), on live search tables at quiescent points, under Miri scheduler seeds and TSan.",
    "C16": "Complete replay of the book corpus (7,888 games) by an independent reader decides the 'exactly the recorded moves' half exhaustively for the current corpus; the 'any position, any history' half is explored over variants and random positions.",
    "C17": "Held on every observed search: preconditions established per case by an exhaustive forbidden-set solver; expectation limited to what the property states (mate score, not the repeating move).",
    "C18": "Held on every generated command history: answers after ucinewgame compared with a fresh process on positions with a unique key move.",
    "C19": "Held on every compared pair of runs: exact equality of the recorded event streams in process, across harness processes and across processes of the shipped binary.",
    "C20": "Complete enumeration of all constructor tuples, en-passant and castling moves with a tuple-bijection oracle; exploration level for the same reason as C09.",
}

def main():
    checks = []
    for pid in sorted(props.PROPS):
        spec = props.PROPS[pid]
        checks.append({
            "property_id": pid,
            "quick_cmd": f"./check {pid} --tier quick",
            "thorough_cmd": f"./check {pid} --tier thorough",
            "evidence_file": f"/verif/evidence/{pid}.json",
            "replay_cmd_template": f"./check {pid} --replay {{path}}",
            "engine": "wv",
            "level_claimed": {"category": "exploration", "text": LEVEL_TEXT[pid], "design_ref": f"DESIGN.md section 7 ({pid})"},
            "level_note": "; ".join(spec["assumptions"]),
            "technique": spec["technique"],
        })
    all_ids = [f"C{n:02d}" for n in range(1, 21)]
    na = [{"property_id": i, "reason": "check under construction in this session"} for i in all_ids if i not in props.PROPS]
    hooks = subprocess.run(["git", "-C", "/repo", "log", "--format=%h %s", "--grep=^verif:"], capture_output=True, text=True).stdout.strip().split("\n")
    m = {
        "version": 1,
        "setup_cmd": "./check --setup",
        "hooks": {
            "guard": "cargo feature `verif` of crate weechess_engine (off by default)",
            "enable": "the harness crate /verif/harness depends on /repo/weechess-engine with features = [\"verif\"]; the UCI binaries are built without it",
            "baseline_off_cmd": "cd /repo && cargo test --workspace --no-fail-fast --offline",
            "source_commits": [h.split(" ")[0] for h in hooks if h],
            "add_only": True,
        },
        "engines": [{"name": "wv", "path": "/verif/harness", "serves_properties": sorted(props.PROPS), "kind_free_text": "Rust monitor harness (independent rules oracle, tablebases, mate solver, scenario runner with observer hooks, UCI session automaton) driven by /verif/check; runs under plain, overflow-checked, TSan and Miri builds"}],
        "checks": checks,
        "not_applicable": na,
        "notes": "Technique family: runtime monitoring and sanitizers. Exit codes: 0 held / 1 VIOLATION / 2 INCONCLUSIVE (never folded). Known findings: /verif/known_findings.json. VERIF_SEED and VERIF_TIER are honoured.",
    }
    json.dump(m, open(os.path.join(VERIF, "MANIFEST.json"), "w"), indent=1)
    print("MANIFEST.json written:", len(checks), "checks,", len(na), "not applicable")

if __name__ == "__main__":
    main()
