#!/bin/sh
# usage: lib/rerun_seeded.sh [<seeded-id> ...]   (default: all)
# Regression over the kept seeded changes: each is applied to a scratch worktree (lib/try_mutant.sh), the checks
# listed in its meta.json under caught_by are run at the quick tier, and one line per (change, check) is appended
# to logs/seeded-rerun.log: "<id> <check> rc=<0|1|2>". rc=1 is the expected result.
cd /verif || exit 3
mkdir -p logs
ids="$@"; [ -z "$ids" ] && ids=$(ls seeded | grep -v README)
for id in $ids; do
  checks=$(python3 -c "import json;print(' '.join(json.load(open('seeded/$id/meta.json'))['caught_by']))")
  lib/try_mutant.sh seeded/$id/patch.diff $checks 2>&1 | grep "^== " | while read _ c rc; do
    echo "$id $c $rc" | tee -a logs/seeded-rerun.log
  done
done
