#!/usr/bin/env python3
"""keep_mutant.py <id> <property> <src-prefix e.g. /tmp/wt-C01/mutant-a> <demo command> <needs> <caught-by (comma list)> [<missed-by-before>]"""
import json, os, shutil, sys
sid, prop, src, cmd, needs, caught = sys.argv[1:7]
note = sys.argv[7] if len(sys.argv) > 7 else ""
d = f"/verif/seeded/{sid}"
os.makedirs(d, exist_ok=True)
shutil.copy(src + ".diff", f"{d}/patch.diff")
shutil.copy(src + "-demo.diff", f"{d}/demo.diff")
if os.path.exists(src + ".md"):
    shutil.copy(src + ".md", f"{d}/author-notes.md")
meta = {
    "id": sid, "breaks_property": prop,
    "needs_to_manifest": needs,
    "demonstration": {"apply": "git apply patch.diff demo.diff (in a scratch worktree of /repo)", "command": cmd,
                      "confirmed": "with the change: 43 existing tests pass, demonstration fails; without the change: demonstration passes (lib/confirm_mutant.sh in /tmp/wt-verify)"},
    "checks_run": f"lib/try_mutant.sh patch.diff {' '.join(caught.split(','))} (quick tier, seed 1)",
    "caught_by": caught.split(","),
    "note": note,
    "origin": "independent sub-agent given only the property text and a scratch worktree",
}
json.dump(meta, open(f"{d}/meta.json", "w"), indent=1)
print("kept", d)
