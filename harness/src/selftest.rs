//! The oracle checks itself against published constants it does not get from weechess.
//! A failure makes the run inconclusive (never a violation of the property).

use crate::oracle::rules::Pos;

pub const PERFT: &[(&str, &[u64])] = &[
    ("rnbqkbnr/pppppppp/8/8/8/8/PPPPPPPP/RNBQKBNR w KQkq - 0 1", &[20, 400, 8902, 197281, 4865609]),
    ("r3k2r/p1ppqpb1/bn2pnp1/3PN3/1p2P3/2N2Q1p/PPPBBPPP/R3K2R w KQkq - 0 1", &[48, 2039, 97862, 4085603]),
    ("8/2p5/3p4/KP5r/1R3p1k/8/4P1P1/8 w - - 0 1", &[14, 191, 2812, 43238, 674624]),
    ("r3k2r/Pppp1ppp/1b3nbN/nP6/BBP1P3/q4N2/Pp1P2PP/R2Q1RK1 w kq - 0 1", &[6, 264, 9467, 422333]),
    ("rnbq1k1r/pp1Pbppp/2p5/8/2B5/8/PPP1NnPP/RNBQK2R w KQ - 1 8", &[44, 1486, 62379, 2103487]),
    ("r4rk1/1pp1qppp/p1np1n2/2b1p1B1/2B1P1b1/P1NP1N2/1PP1QPPP/R4RK1 w - - 0 10", &[46, 2079, 89890, 3894594]),
];

/// max_nodes bounds the per-position constant that is recomputed
pub fn oracle_perft(max_nodes: u64) -> Result<u64, String> {
    let mut total = 0;
    for (fen, counts) in PERFT {
        let p = Pos::from_fen(fen).ok_or("oracle FEN reader failed")?;
        for (d, want) in counts.iter().enumerate() {
            if *want > max_nodes {
                break;
            }
            let got = p.perft(d + 1);
            if got != *want {
                return Err(format!("oracle perft({}) of {} = {}, published {}", d + 1, fen, got, want));
            }
            total += got;
        }
    }
    Ok(total)
}
