//! Retrograde tablebases for K+X vs K (X in Q,R,B,N,P), built on `oracle::rules` only.
//! Values are exact game values with distance to mate in plies.

use super::rules::*;
use std::collections::HashMap;

#[derive(Clone, Copy, PartialEq, Eq, Debug)]
pub enum Val {
    /// side to move mates in n plies (n odd, >= 1)
    Win(u16),
    /// side to move is mated in n plies (n even, 0 = checkmated now)
    Loss(u16),
    Draw,
}

impl Val {
    pub fn is_win(self) -> bool {
        matches!(self, Val::Win(_))
    }
    pub fn is_loss(self) -> bool {
        matches!(self, Val::Loss(_))
    }
}

const UNK: i16 = i16::MIN;
const DRAW: i16 = i16::MIN + 1;
const ILLEGAL: i16 = i16::MIN + 2;
// win in n -> n ; loss in n -> -(n+1)

fn enc(v: Val) -> i16 {
    match v {
        Val::Win(n) => n as i16,
        Val::Loss(n) => -(n as i16) - 1,
        Val::Draw => DRAW,
    }
}
fn dec(v: i16) -> Option<Val> {
    if v == DRAW {
        Some(Val::Draw)
    } else if v == UNK || v == ILLEGAL {
        None
    } else if v > 0 {
        Some(Val::Win(v as u16))
    } else {
        Some(Val::Loss((-(v + 1)) as u16))
    }
}

/// One table: White has K + `kind`, Black has K.
pub struct Table {
    pub kind: Kind,
    val: Vec<i16>,
}

fn idx(wk: u8, bk: u8, x: u8, wtm: bool) -> usize {
    (((wk as usize * 64) + bk as usize) * 64 + x as usize) * 2 + if wtm { 0 } else { 1 }
}

fn locate(p: &Pos, kind: Kind) -> Option<usize> {
    let mut wk = None;
    let mut bk = None;
    let mut x = None;
    let mut n = 0;
    for s in 0..64u8 {
        let v = p.b[s as usize];
        if v == 0 {
            continue;
        }
        n += 1;
        if v == 6 {
            wk = Some(s)
        } else if v == -6 {
            bk = Some(s)
        } else if v == kind as i8 {
            x = Some(s)
        } else {
            return None;
        }
    }
    if n != 3 {
        return None;
    }
    Some(idx(wk?, bk?, x?, p.wtm))
}

pub struct Tablebases {
    tables: HashMap<Kind, Table>,
}

impl Tablebases {
    /// Build KQK, KRK, KBK, KNK and then KPK (which promotes into the others).
    pub fn build(kinds: &[Kind]) -> Tablebases {
        let mut tb = Tablebases { tables: HashMap::new() };
        let mut order: Vec<Kind> = kinds.iter().copied().filter(|k| *k != Kind::P).collect();
        if kinds.contains(&Kind::P) {
            for k in [Kind::Q, Kind::R, Kind::B, Kind::N] {
                if !order.contains(&k) {
                    order.push(k);
                }
            }
            order.push(Kind::P);
        }
        for k in order {
            let t = tb.build_one(k);
            tb.tables.insert(k, t);
        }
        tb
    }

    pub fn has(&self, k: Kind) -> bool {
        self.tables.contains_key(&k)
    }

    fn build_one(&self, kind: Kind) -> Table {
        let n = 64 * 64 * 64 * 2;
        let mut val = vec![UNK; n];
        // successor lists: Ok(index in this table) or a fixed value from the successor's point of view
        let mut succ: Vec<Vec<(u32, i16)>> = vec![Vec::new(); n];
        for wk in 0..64u8 {
            for bk in 0..64u8 {
                for x in 0..64u8 {
                    for wtm in [true, false] {
                        let i = idx(wk, bk, x, wtm);
                        if wk == bk || wk == x || bk == x {
                            val[i] = ILLEGAL;
                            continue;
                        }
                        if kind == Kind::P && (x < 8 || x >= 56) {
                            val[i] = ILLEGAL;
                            continue;
                        }
                        let mut b = [0i8; 64];
                        b[wk as usize] = 6;
                        b[bk as usize] = -6;
                        b[x as usize] = kind as i8;
                        let p = Pos { b, wtm, castle: 0, ep: None, half: 0, full: 1 };
                        if p.in_check(!wtm) {
                            val[i] = ILLEGAL;
                            continue;
                        }
                        let ms = p.legal_moves();
                        if ms.is_empty() {
                            val[i] = if p.in_check(wtm) { enc(Val::Loss(0)) } else { DRAW };
                            continue;
                        }
                        for m in ms {
                            let c = p.make(&m);
                            if let Some(k) = locate(&c, kind) {
                                succ[i].push((k as u32, UNK));
                            } else if c.men() == 2 {
                                succ[i].push((u32::MAX, DRAW));
                            } else {
                                // promotion: value from another table
                                let v = self.probe(&c).expect("promotion target table missing");
                                succ[i].push((u32::MAX, enc(v)));
                            }
                        }
                    }
                }
            }
        }
        // iterative retrograde sweeps
        let get = |val: &Vec<i16>, s: &(u32, i16)| -> i16 {
            if s.0 == u32::MAX {
                s.1
            } else {
                val[s.0 as usize]
            }
        };
        let mut d: i16 = 0;
        let mut idle = 0;
        loop {
            d += 1;
            let mut changed = false;
            let mut updates: Vec<(usize, i16)> = vec![];
            for i in 0..n {
                if val[i] != UNK {
                    continue;
                }
                if d % 2 == 1 {
                    // win in d: some successor is lost in d-1 for the opponent
                    let want = enc(Val::Loss((d - 1) as u16));
                    if succ[i].iter().any(|s| get(&val, s) == want) {
                        updates.push((i, enc(Val::Win(d as u16))));
                    }
                } else {
                    // loss in d: every successor is a win for the opponent, slowest = d-1
                    let mut all = true;
                    let mut mx = 0i16;
                    for s in succ[i].iter() {
                        let v = get(&val, s);
                        if v > 0 && v != i16::MAX {
                            mx = mx.max(v);
                        } else {
                            all = false;
                            break;
                        }
                    }
                    if all && mx == d - 1 {
                        updates.push((i, enc(Val::Loss(d as u16))));
                    }
                }
            }
            for (i, v) in updates {
                val[i] = v;
                changed = true;
            }
            if changed {
                idle = 0;
            } else {
                idle += 1;
            }
            if idle >= 4 || d > 200 {
                break;
            }
        }
        for v in val.iter_mut() {
            if *v == UNK {
                *v = DRAW;
            }
        }
        Table { kind, val }
    }

    /// Exact value for the side to move, or None when the material is not covered.
    pub fn probe(&self, p: &Pos) -> Option<Val> {
        let men = p.men();
        if men == 2 {
            return Some(Val::Draw);
        }
        if men != 3 {
            return None;
        }
        // which side has the extra piece?
        let extra = p.b.iter().copied().find(|v| *v != 0 && v.abs() != 6)?;
        let q = if extra > 0 { p.clone() } else { p.mirror() };
        let kind = Kind::from_i8(extra);
        let t = self.tables.get(&kind)?;
        let i = locate(&q, kind)?;
        dec(t.val[i])
    }

    /// Longest win in the table (plies), used as a self-check against published maxima.
    pub fn max_win(&self, kind: Kind) -> u16 {
        self.tables[&kind]
            .val
            .iter()
            .filter_map(|v| match dec(*v) {
                Some(Val::Win(n)) => Some(n),
                _ => None,
            })
            .max()
            .unwrap_or(0)
    }

    pub fn count_legal(&self, kind: Kind) -> usize {
        self.tables[&kind].val.iter().filter(|v| **v != ILLEGAL).count()
    }

    /// Iterate over all legal positions of a table as (Pos, value)
    pub fn for_each<F: FnMut(&Pos, Val)>(&self, kind: Kind, mut f: F) {
        let t = &self.tables[&kind];
        for wk in 0..64u8 {
            for bk in 0..64u8 {
                for x in 0..64u8 {
                    for wtm in [true, false] {
                        let i = idx(wk, bk, x, wtm);
                        if let Some(v) = dec(t.val[i]) {
                            let mut b = [0i8; 64];
                            b[wk as usize] = 6;
                            b[bk as usize] = -6;
                            b[x as usize] = kind as i8;
                            let p = Pos { b, wtm, castle: 0, ep: None, half: 0, full: 1 };
                            f(&p, v);
                        }
                    }
                }
            }
        }
    }
}
