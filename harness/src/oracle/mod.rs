pub mod rules;
pub mod solver;
pub mod tb;
pub mod tb4;
