pub mod rules;
pub mod solver;
pub mod tb;
