//! Independent reference implementation of the rules of chess (mailbox, no bitboards).
//! Shares no code with weechess.

#[derive(Clone, Copy, PartialEq, Eq, Debug, Hash, PartialOrd, Ord)]
pub enum Kind {
    P = 1,
    N = 2,
    B = 3,
    R = 4,
    Q = 5,
    K = 6,
}

impl Kind {
    pub fn from_i8(v: i8) -> Kind {
        match v.abs() {
            1 => Kind::P,
            2 => Kind::N,
            3 => Kind::B,
            4 => Kind::R,
            5 => Kind::Q,
            6 => Kind::K,
            _ => panic!("bad kind"),
        }
    }
    pub fn letter(self) -> char {
        match self {
            Kind::P => 'P',
            Kind::N => 'N',
            Kind::B => 'B',
            Kind::R => 'R',
            Kind::Q => 'Q',
            Kind::K => 'K',
        }
    }
}

pub const WK: u8 = 1;
pub const WQ: u8 = 2;
pub const BK: u8 = 4;
pub const BQ: u8 = 8;

#[derive(Clone, PartialEq, Eq, Debug, Hash)]
pub struct Pos {
    /// index = rank*8+file, a1 = 0. >0 white, <0 black, 0 empty
    pub b: [i8; 64],
    pub wtm: bool,
    pub castle: u8,
    pub ep: Option<u8>,
    pub half: u64,
    pub full: u64,
}

#[derive(Clone, Copy, PartialEq, Eq, Debug, Hash, PartialOrd, Ord)]
pub struct OMove {
    pub from: u8,
    pub to: u8,
    pub piece: Kind,
    pub white: bool,
    pub capture: Option<Kind>,
    pub promo: Option<Kind>,
    pub ep: bool,
    /// Some(true) = kingside
    pub castle: Option<bool>,
    pub double: bool,
}

pub fn file(sq: u8) -> i32 {
    (sq % 8) as i32
}
pub fn rank(sq: u8) -> i32 {
    (sq / 8) as i32
}
pub fn at(f: i32, r: i32) -> Option<u8> {
    if (0..8).contains(&f) && (0..8).contains(&r) {
        Some((r * 8 + f) as u8)
    } else {
        None
    }
}
pub fn sq_name(sq: u8) -> String {
    format!("{}{}", (b'a' + sq % 8) as char, (b'1' + sq / 8) as char)
}

pub const KNIGHT: [(i32, i32); 8] = [(1, 2), (2, 1), (2, -1), (1, -2), (-1, -2), (-2, -1), (-2, 1), (-1, 2)];
pub const KING: [(i32, i32); 8] = [(1, 0), (1, 1), (0, 1), (-1, 1), (-1, 0), (-1, -1), (0, -1), (1, -1)];
pub const ORTHO: [(i32, i32); 4] = [(1, 0), (-1, 0), (0, 1), (0, -1)];
pub const DIAG: [(i32, i32); 4] = [(1, 1), (1, -1), (-1, 1), (-1, -1)];

impl Pos {
    pub fn start() -> Pos {
        Pos::from_fen("rnbqkbnr/pppppppp/8/8/8/8/PPPPPPPP/RNBQKBNR w KQkq - 0 1").unwrap()
    }

    pub fn king_sq(&self, white: bool) -> Option<u8> {
        let k = if white { 6 } else { -6 };
        (0..64u8).find(|&s| self.b[s as usize] == k)
    }

    /// Is `sq` attacked by a piece of colour `by_white` (occupancy as on the board)?
    pub fn attacked(&self, sq: u8, by_white: bool) -> bool {
        let (f, r) = (file(sq), rank(sq));
        let sign: i8 = if by_white { 1 } else { -1 };
        // pawns: a white pawn on (f±1, r-1) attacks (f, r)
        let pr = if by_white { r - 1 } else { r + 1 };
        for df in [-1, 1] {
            if let Some(s) = at(f + df, pr) {
                if self.b[s as usize] == sign * 1 {
                    return true;
                }
            }
        }
        for (df, dr) in KNIGHT {
            if let Some(s) = at(f + df, r + dr) {
                if self.b[s as usize] == sign * 2 {
                    return true;
                }
            }
        }
        for (df, dr) in KING {
            if let Some(s) = at(f + df, r + dr) {
                if self.b[s as usize] == sign * 6 {
                    return true;
                }
            }
        }
        for (dirs, a, b2) in [(ORTHO, 4i8, 5i8), (DIAG, 3i8, 5i8)] {
            for (df, dr) in dirs {
                let (mut cf, mut cr) = (f + df, r + dr);
                while let Some(s) = at(cf, cr) {
                    let p = self.b[s as usize];
                    if p != 0 {
                        if p == sign * a || p == sign * b2 {
                            return true;
                        }
                        break;
                    }
                    cf += df;
                    cr += dr;
                }
            }
        }
        false
    }

    pub fn in_check(&self, white: bool) -> bool {
        match self.king_sq(white) {
            Some(k) => self.attacked(k, !white),
            None => false,
        }
    }

    /// Set of squares attacked by colour (incl. squares occupied by own pieces)
    pub fn attack_set(&self, by_white: bool) -> u64 {
        let mut r = 0u64;
        for s in 0..64u8 {
            if self.attacked(s, by_white) {
                r |= 1 << s;
            }
        }
        r
    }

    pub fn pawn_attack_set(&self, by_white: bool) -> u64 {
        let mut r = 0u64;
        let sign: i8 = if by_white { 1 } else { -1 };
        for s in 0..64u8 {
            if self.b[s as usize] == sign {
                let nr = rank(s) + if by_white { 1 } else { -1 };
                for df in [-1, 1] {
                    if let Some(t) = at(file(s) + df, nr) {
                        r |= 1 << t;
                    }
                }
            }
        }
        r
    }

    pub fn occupancy(&self, white: bool) -> u64 {
        let mut r = 0u64;
        for s in 0..64 {
            let p = self.b[s];
            if (white && p > 0) || (!white && p < 0) {
                r |= 1 << s;
            }
        }
        r
    }

    fn push_pawn_moves(&self, from: u8, to: u8, capture: Option<Kind>, out: &mut Vec<OMove>) {
        let white = self.wtm;
        let last = if white { 7 } else { 0 };
        if rank(to) == last {
            for k in [Kind::Q, Kind::R, Kind::B, Kind::N] {
                out.push(OMove { from, to, piece: Kind::P, white, capture, promo: Some(k), ep: false, castle: None, double: false });
            }
        } else {
            out.push(OMove { from, to, piece: Kind::P, white, capture, promo: None, ep: false, castle: None, double: (rank(to) - rank(from)).abs() == 2 });
        }
    }

    pub fn pseudo_moves(&self) -> Vec<OMove> {
        let mut out = Vec::with_capacity(64);
        let white = self.wtm;
        let sign: i8 = if white { 1 } else { -1 };
        for from in 0..64u8 {
            let p = self.b[from as usize];
            if p == 0 || (p > 0) != white {
                continue;
            }
            let (f, r) = (file(from), rank(from));
            match Kind::from_i8(p) {
                Kind::P => {
                    let dr = if white { 1 } else { -1 };
                    let home = if white { 1 } else { 6 };
                    if let Some(t) = at(f, r + dr) {
                        if self.b[t as usize] == 0 {
                            self.push_pawn_moves(from, t, None, &mut out);
                            if r == home {
                                if let Some(t2) = at(f, r + 2 * dr) {
                                    if self.b[t2 as usize] == 0 {
                                        self.push_pawn_moves(from, t2, None, &mut out);
                                    }
                                }
                            }
                        }
                    }
                    for df in [-1, 1] {
                        if let Some(t) = at(f + df, r + dr) {
                            let q = self.b[t as usize];
                            if q != 0 && (q > 0) != white {
                                self.push_pawn_moves(from, t, Some(Kind::from_i8(q)), &mut out);
                            } else if q == 0 && self.ep == Some(t) {
                                // the victim must be where it should be
                                let victim = at(f + df, r).unwrap();
                                if self.b[victim as usize] == -sign {
                                    out.push(OMove { from, to: t, piece: Kind::P, white, capture: Some(Kind::P), promo: None, ep: true, castle: None, double: false });
                                }
                            }
                        }
                    }
                }
                Kind::N | Kind::K => {
                    let kind = Kind::from_i8(p);
                    let offs = if kind == Kind::N { KNIGHT } else { KING };
                    for (df, dr) in offs {
                        if let Some(t) = at(f + df, r + dr) {
                            let q = self.b[t as usize];
                            if q == 0 || (q > 0) != white {
                                out.push(OMove { from, to: t, piece: kind, white, capture: if q == 0 { None } else { Some(Kind::from_i8(q)) }, promo: None, ep: false, castle: None, double: false });
                            }
                        }
                    }
                }
                kind => {
                    let mut dirs: Vec<(i32, i32)> = vec![];
                    if kind == Kind::R || kind == Kind::Q {
                        dirs.extend(ORTHO);
                    }
                    if kind == Kind::B || kind == Kind::Q {
                        dirs.extend(DIAG);
                    }
                    for (df, dr) in dirs {
                        let (mut cf, mut cr) = (f + df, r + dr);
                        while let Some(t) = at(cf, cr) {
                            let q = self.b[t as usize];
                            if q == 0 {
                                out.push(OMove { from, to: t, piece: kind, white, capture: None, promo: None, ep: false, castle: None, double: false });
                            } else {
                                if (q > 0) != white {
                                    out.push(OMove { from, to: t, piece: kind, white, capture: Some(Kind::from_i8(q)), promo: None, ep: false, castle: None, double: false });
                                }
                                break;
                            }
                            cf += df;
                            cr += dr;
                        }
                    }
                }
            }
        }
        // castling
        let (ksq, kbit, qbit, rook) = if white { (4u8, WK, WQ, 4i8) } else { (60u8, BK, BQ, -4i8) };
        if self.b[ksq as usize] == sign * 6 && !self.attacked(ksq, !white) {
            if self.castle & kbit != 0
                && self.b[(ksq + 3) as usize] == rook
                && self.b[(ksq + 1) as usize] == 0
                && self.b[(ksq + 2) as usize] == 0
                && !self.attacked(ksq + 1, !white)
                && !self.attacked(ksq + 2, !white)
            {
                out.push(OMove { from: ksq, to: ksq + 2, piece: Kind::K, white, capture: None, promo: None, ep: false, castle: Some(true), double: false });
            }
            if self.castle & qbit != 0
                && self.b[(ksq - 4) as usize] == rook
                && self.b[(ksq - 1) as usize] == 0
                && self.b[(ksq - 2) as usize] == 0
                && self.b[(ksq - 3) as usize] == 0
                && !self.attacked(ksq - 1, !white)
                && !self.attacked(ksq - 2, !white)
            {
                out.push(OMove { from: ksq, to: ksq - 2, piece: Kind::K, white, capture: None, promo: None, ep: false, castle: Some(false), double: false });
            }
        }
        out
    }

    pub fn make(&self, m: &OMove) -> Pos {
        let mut n = self.clone();
        let white = self.wtm;
        let sign: i8 = if white { 1 } else { -1 };
        n.b[m.from as usize] = 0;
        n.b[m.to as usize] = sign * (m.promo.unwrap_or(m.piece) as i8);
        if m.ep {
            let victim = at(file(m.to), rank(m.from)).unwrap();
            n.b[victim as usize] = 0;
        }
        if let Some(kingside) = m.castle {
            let r = rank(m.from);
            let (rf, rt) = if kingside { (7, 5) } else { (0, 3) };
            n.b[at(rf, r).unwrap() as usize] = 0;
            n.b[at(rt, r).unwrap() as usize] = sign * 4;
        }
        // castling rights
        if m.piece == Kind::K {
            n.castle &= if white { !(WK | WQ) } else { !(BK | BQ) };
        }
        for (sq, bit) in [(7u8, WK), (0u8, WQ), (63u8, BK), (56u8, BQ)] {
            if m.from == sq || m.to == sq {
                n.castle &= !bit;
            }
        }
        n.ep = if m.double { at(file(m.from), (rank(m.from) + rank(m.to)) / 2) } else { None };
        n.half = if m.piece == Kind::P || m.capture.is_some() { 0 } else { self.half.saturating_add(1) };
        n.full = if white { self.full } else { self.full.saturating_add(1) };
        n.wtm = !white;
        n
    }

    pub fn legal_moves(&self) -> Vec<OMove> {
        self.pseudo_moves().into_iter().filter(|m| !self.make(m).in_check(self.wtm)).collect()
    }

    pub fn illegal_pseudo_moves(&self) -> Vec<OMove> {
        self.pseudo_moves().into_iter().filter(|m| self.make(m).in_check(self.wtm)).collect()
    }

    /// en passant capture legally available?
    pub fn ep_legal(&self) -> bool {
        self.ep.is_some() && self.legal_moves().iter().any(|m| m.ep)
    }

    pub fn ep_pseudo(&self) -> bool {
        self.ep.is_some() && self.pseudo_moves().iter().any(|m| m.ep)
    }

    pub fn key(&self) -> ([i8; 64], bool, u8, Option<u8>) {
        (self.b, self.wtm, self.castle, if self.ep_legal() { self.ep } else { None })
    }

    /// 64-bit digest of `key()` (FNV-1a; only used to count distinct cases)
    pub fn key_hash(&self) -> u64 {
        let (b, w, c, e) = self.key();
        let mut h: u64 = 0xcbf29ce484222325;
        let mut eat = |x: u8| {
            h ^= x as u64;
            h = h.wrapping_mul(0x100000001b3);
        };
        for v in b {
            eat(v as u8);
        }
        eat(w as u8);
        eat(c);
        eat(e.map(|x| x + 1).unwrap_or(0));
        h
    }

    /// placement + side only
    pub fn place_key(&self) -> ([i8; 64], bool) {
        (self.b, self.wtm)
    }

    pub fn count(&self, piece: i8) -> usize {
        self.b.iter().filter(|&&p| p == piece).count()
    }

    pub fn men(&self) -> usize {
        self.b.iter().filter(|&&p| p != 0).count()
    }

    /// The legality conditions of C01's quantifier.
    pub fn is_legal_position(&self) -> bool {
        if self.count(6) != 1 || self.count(-6) != 1 {
            return false;
        }
        for f in 0..8 {
            if self.b[f].abs() == 1 || self.b[56 + f].abs() == 1 {
                return false;
            }
        }
        if self.in_check(!self.wtm) {
            return false;
        }
        for (bit, ksq, rsq, k, r) in [(WK, 4usize, 7usize, 6i8, 4i8), (WQ, 4, 0, 6, 4), (BK, 60, 63, -6, -4), (BQ, 60, 56, -6, -4)] {
            if self.castle & bit != 0 && (self.b[ksq] != k || self.b[rsq] != r) {
                return false;
            }
        }
        if let Some(e) = self.ep {
            // side to move captures; the pawn that double-stepped belongs to the other side
            let (er, pawn_r, from_r, pawn) = if self.wtm { (5, 4, 6, -1i8) } else { (2, 3, 1, 1i8) };
            if rank(e) != er {
                return false;
            }
            let f = file(e);
            if self.b[at(f, pawn_r).unwrap() as usize] != pawn
                || self.b[e as usize] != 0
                || self.b[at(f, from_r).unwrap() as usize] != 0
            {
                return false;
            }
        }
        true
    }

    /// material imbalance in pawn units by the 1/3/3.5/5/9 scale
    pub fn imbalance(&self) -> f32 {
        let mut v = 0.0f32;
        for p in self.b {
            let w = match p.abs() {
                1 => 1.0,
                2 => 3.0,
                3 => 3.5,
                4 => 5.0,
                5 => 9.0,
                _ => 0.0,
            };
            v += if p > 0 { w } else { -w };
        }
        v.abs()
    }

    pub fn fen(&self) -> String {
        let mut s = String::new();
        for r in (0..8).rev() {
            let mut empty = 0;
            for f in 0..8 {
                let p = self.b[(r * 8 + f) as usize];
                if p == 0 {
                    empty += 1;
                } else {
                    if empty > 0 {
                        s.push_str(&empty.to_string());
                        empty = 0;
                    }
                    let c = Kind::from_i8(p).letter();
                    s.push(if p > 0 { c } else { c.to_ascii_lowercase() });
                }
            }
            if empty > 0 {
                s.push_str(&empty.to_string());
            }
            if r > 0 {
                s.push('/');
            }
        }
        s.push(' ');
        s.push(if self.wtm { 'w' } else { 'b' });
        s.push(' ');
        if self.castle == 0 {
            s.push('-');
        } else {
            for (bit, c) in [(WK, 'K'), (WQ, 'Q'), (BK, 'k'), (BQ, 'q')] {
                if self.castle & bit != 0 {
                    s.push(c);
                }
            }
        }
        s.push(' ');
        match self.ep {
            None => s.push('-'),
            Some(e) => s.push_str(&sq_name(e)),
        }
        s.push_str(&format!(" {} {}", self.half, self.full));
        s
    }

    pub fn from_fen(fen: &str) -> Option<Pos> {
        let parts: Vec<&str> = fen.split(' ').collect();
        if parts.len() != 6 {
            return None;
        }
        let mut b = [0i8; 64];
        let ranks: Vec<&str> = parts[0].split('/').collect();
        if ranks.len() != 8 {
            return None;
        }
        for (i, rs) in ranks.iter().enumerate() {
            let r = 7 - i as i32;
            let mut f = 0i32;
            for c in rs.chars() {
                if let Some(d) = c.to_digit(10) {
                    f += d as i32;
                } else {
                    let k = match c.to_ascii_uppercase() {
                        'P' => 1,
                        'N' => 2,
                        'B' => 3,
                        'R' => 4,
                        'Q' => 5,
                        'K' => 6,
                        _ => return None,
                    };
                    if f > 7 {
                        return None;
                    }
                    b[(r * 8 + f) as usize] = if c.is_ascii_uppercase() { k } else { -k };
                    f += 1;
                }
            }
            if f != 8 {
                return None;
            }
        }
        let wtm = match parts[1] {
            "w" => true,
            "b" => false,
            _ => return None,
        };
        let mut castle = 0;
        if parts[2] != "-" {
            for c in parts[2].chars() {
                castle |= match c {
                    'K' => WK,
                    'Q' => WQ,
                    'k' => BK,
                    'q' => BQ,
                    _ => return None,
                };
            }
        }
        let ep = if parts[3] == "-" {
            None
        } else {
            let bs = parts[3].as_bytes();
            if bs.len() != 2 {
                return None;
            }
            Some((bs[1] - b'1') * 8 + (bs[0] - b'a'))
        };
        Some(Pos { b, wtm, castle, ep, half: parts[4].parse().ok()?, full: parts[5].parse().ok()? })
    }

    pub fn mirror(&self) -> Pos {
        let mut b = [0i8; 64];
        for s in 0..64u8 {
            let t = (7 - s / 8) * 8 + s % 8;
            b[t as usize] = -self.b[s as usize];
        }
        let mut castle = 0;
        for (a, bb) in [(WK, BK), (WQ, BQ), (BK, WK), (BQ, WQ)] {
            if self.castle & a != 0 {
                castle |= bb;
            }
        }
        Pos { b, wtm: !self.wtm, castle, ep: self.ep.map(|e| (7 - e / 8) * 8 + e % 8), half: self.half, full: self.full }
    }

    pub fn perft(&self, d: usize) -> u64 {
        if d == 0 {
            return 1;
        }
        let ms = self.legal_moves();
        if d == 1 {
            return ms.len() as u64;
        }
        ms.iter().map(|m| self.make(m).perft(d - 1)).sum()
    }

    /// All admissible SAN spellings of a legal move `m` (must be in `legal`).
    pub fn san_spellings(&self, m: &OMove, legal: &[OMove]) -> Vec<String> {
        let next = self.make(m);
        let gives_check = next.in_check(next.wtm);
        let is_mate = gives_check && next.legal_moves().is_empty();
        let mut suffixes = vec![String::new()];
        if is_mate {
            suffixes.push("#".into());
        } else if gives_check {
            suffixes.push("+".into());
        }
        let mut bodies: Vec<String> = vec![];
        if let Some(k) = m.castle {
            bodies.push(if k { "O-O".into() } else { "O-O-O".into() });
        } else if m.piece == Kind::P {
            let mut base = String::new();
            if m.capture.is_some() {
                base.push((b'a' + m.from % 8) as char);
                base.push('x');
            }
            base.push_str(&sq_name(m.to));
            match m.promo {
                None => bodies.push(base),
                Some(p) => {
                    bodies.push(format!("{}={}", base, p.letter()));
                    bodies.push(format!("{}{}", base, p.letter()));
                }
            }
        } else {
            let others: Vec<&OMove> = legal.iter().filter(|o| o.piece == m.piece && o.to == m.to && o.from != m.from).collect();
            let x = if m.capture.is_some() { "x" } else { "" };
            let l = m.piece.letter();
            let ff = (b'a' + m.from % 8) as char;
            let fr = (b'1' + m.from / 8) as char;
            let file_unique = !others.iter().any(|o| o.from % 8 == m.from % 8);
            let rank_unique = !others.iter().any(|o| o.from / 8 == m.from / 8);
            if others.is_empty() {
                bodies.push(format!("{}{}{}", l, x, sq_name(m.to)));
            }
            if file_unique {
                bodies.push(format!("{}{}{}{}", l, ff, x, sq_name(m.to)));
            }
            if rank_unique {
                bodies.push(format!("{}{}{}{}", l, fr, x, sq_name(m.to)));
            }
            bodies.push(format!("{}{}{}{}{}", l, ff, fr, x, sq_name(m.to)));
        }
        let mut out = vec![];
        for b in &bodies {
            for s in &suffixes {
                out.push(format!("{}{}", b, s));
            }
        }
        out
    }

    /// Fully disambiguated notation for any pseudo-legal move (used for negative cases)
    pub fn san_full(&self, m: &OMove) -> String {
        if let Some(k) = m.castle {
            return if k { "O-O".into() } else { "O-O-O".into() };
        }
        let x = if m.capture.is_some() { "x" } else { "" };
        if m.piece == Kind::P {
            let mut s = String::new();
            if m.capture.is_some() {
                s.push((b'a' + m.from % 8) as char);
                s.push('x');
            }
            s.push_str(&sq_name(m.to));
            if let Some(p) = m.promo {
                s.push('=');
                s.push(p.letter());
            }
            s
        } else {
            format!("{}{}{}{}", m.piece.letter(), sq_name(m.from), x, sq_name(m.to))
        }
    }

    pub fn lan(m: &OMove) -> String {
        let mut s = format!("{}{}", sq_name(m.from), sq_name(m.to));
        if let Some(p) = m.promo {
            s.push(p.letter().to_ascii_lowercase());
        }
        s
    }
}
