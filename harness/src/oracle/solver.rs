//! Exhaustive AND/OR mate solver on `oracle::rules`, with an optional forbidden set:
//! positions (placement + side to move) that count as draws whenever they are *entered*
//! (at ply > 0). This is exactly the engine's stated repetition rule.

use super::rules::*;
use std::collections::{HashMap, HashSet};

pub type PKey = ([i8; 64], bool, u8, Option<u8>);

pub fn pkey(p: &Pos) -> PKey {
    // ep only matters when a capture is pseudo-legally possible
    (p.b, p.wtm, p.castle, if p.ep_pseudo() { p.ep } else { None })
}

pub struct Solver<'a> {
    pub forbidden: &'a HashSet<PKey>,
    memo_win: HashMap<(PKey, usize), bool>,
    memo_lost: HashMap<(PKey, usize), bool>,
    pub nodes: u64,
    pub node_limit: u64,
    pub aborted: bool,
}

impl<'a> Solver<'a> {
    pub fn new(forbidden: &'a HashSet<PKey>) -> Self {
        Solver { forbidden, memo_win: HashMap::new(), memo_lost: HashMap::new(), nodes: 0, node_limit: 5_000_000, aborted: false }
    }

    /// side to move can force mate within n plies
    pub fn wins(&mut self, p: &Pos, n: usize) -> bool {
        if n == 0 || self.aborted {
            return false;
        }
        let k = (pkey(p), n);
        if let Some(v) = self.memo_win.get(&k) {
            return *v;
        }
        self.nodes += 1;
        if self.nodes > self.node_limit {
            self.aborted = true;
            return false;
        }
        let mut r = false;
        for m in p.legal_moves() {
            let c = p.make(&m);
            if self.forbidden.contains(&pkey(&c)) {
                continue;
            }
            if self.lost(&c, n - 1) {
                r = true;
                break;
            }
        }
        self.memo_win.insert(k, r);
        r
    }

    /// side to move is mated within n plies whatever it plays
    pub fn lost(&mut self, p: &Pos, n: usize) -> bool {
        if self.aborted {
            return false;
        }
        let k = (pkey(p), n);
        if let Some(v) = self.memo_lost.get(&k) {
            return *v;
        }
        self.nodes += 1;
        if self.nodes > self.node_limit {
            self.aborted = true;
            return false;
        }
        let ms = p.legal_moves();
        let r = if ms.is_empty() {
            p.in_check(p.wtm)
        } else if n == 0 {
            false
        } else {
            let mut all = true;
            for m in ms.iter() {
                let c = p.make(m);
                if self.forbidden.contains(&pkey(&c)) || !self.wins(&c, n - 1) {
                    all = false;
                    break;
                }
            }
            all
        };
        self.memo_lost.insert(k, r);
        r
    }

    /// all first moves that force mate within n plies
    pub fn winning_moves(&mut self, p: &Pos, n: usize) -> Vec<OMove> {
        let mut good = vec![];
        if n == 0 {
            return good;
        }
        for m in p.legal_moves() {
            let c = p.make(&m);
            if self.forbidden.contains(&pkey(&c)) {
                continue;
            }
            if self.lost(&c, n - 1) {
                good.push(m);
            }
        }
        good
    }

    /// smallest odd n <= max with a forced mate, if any
    pub fn mate_distance(&mut self, p: &Pos, max: usize) -> Option<usize> {
        let mut n = 1;
        while n <= max {
            if self.wins(p, n) {
                return Some(n);
            }
            n += 2;
        }
        None
    }
}
