//! Exact values for pawnless 4-man endings K+X vs K+Y and K+X+Y vs K (X, Y in Q,R,B,N), built by retrograde
//! analysis on `oracle::rules` with stored successor lists (CSR) and parallel sweeps. Captures
//! fall into the 3-man tablebases. Built once by `./check --setup` into /verif/cache (the tables
//! depend only on the oracle, never on /repo) and loaded by the checks when present.

use super::rules::*;
use super::tb::{Tablebases, Val};
use std::io::{Read, Write};

const UNK: i16 = i16::MIN;
const DRAW: i16 = i16::MIN + 1;
const ILLEGAL: i16 = i16::MIN + 2;

fn enc(v: Val) -> i16 {
    match v {
        Val::Win(n) => n as i16,
        Val::Loss(n) => -(n as i16) - 1,
        Val::Draw => DRAW,
    }
}
fn dec(v: i16) -> Option<Val> {
    if v == DRAW {
        Some(Val::Draw)
    } else if v == UNK || v == ILLEGAL {
        None
    } else if v > 0 {
        Some(Val::Win(v as u16))
    } else {
        Some(Val::Loss((-(v + 1)) as u16))
    }
}

pub struct Table4 {
    pub wx: Kind,
    pub bx: Kind,
    /// false: White K+wx against Black K+bx; true: White K+wx+bx against the bare black king
    pub same: bool,
    /// in memory one byte per position (distances stay below 126 plies in every class built here)
    val: Vec<i8>,
}

fn pack(v: i16) -> i8 {
    if v == DRAW {
        -128
    } else if v == UNK || v == ILLEGAL {
        -127
    } else {
        assert!(v > -126 && v < 127, "distance out of the compact range");
        v as i8
    }
}
fn unpack(v: i8) -> i16 {
    match v {
        -128 => DRAW,
        -127 => ILLEGAL,
        x => x as i16,
    }
}

#[inline]
fn idx(wk: usize, bk: usize, wx: usize, bx: usize, wtm: bool) -> usize {
    ((((wk * 64 + bk) * 64 + wx) * 64 + bx) << 1) | (!wtm as usize)
}

fn locate(p: &Pos, wxk: Kind, bxk: Kind, same: bool) -> Option<usize> {
    let second = if same { bxk as i8 } else { -(bxk as i8) };
    let (mut wk, mut bk, mut wx, mut bx) = (None, None, None, None);
    let mut n = 0;
    for s in 0..64usize {
        let v = p.b[s];
        if v == 0 {
            continue;
        }
        n += 1;
        if v == 6 {
            wk = Some(s)
        } else if v == -6 {
            bk = Some(s)
        } else if v == wxk as i8 && wx.is_none() {
            wx = Some(s)
        } else if v == second && bx.is_none() {
            bx = Some(s)
        } else {
            return None;
        }
    }
    if n != 4 {
        return None;
    }
    Some(idx(wk?, bk?, wx?, bx?, p.wtm))
}

fn pos_of(i: usize, wxk: Kind, bxk: Kind, same: bool) -> Option<Pos> {
    let wtm = i & 1 == 0;
    let j = i >> 1;
    let (bx, wx, bk, wk) = (j % 64, (j / 64) % 64, (j / 4096) % 64, j / 262144);
    if wk == bk || wk == wx || wk == bx || bk == wx || bk == bx || wx == bx {
        return None;
    }
    let mut b = [0i8; 64];
    b[wk] = 6;
    b[bk] = -6;
    b[wx] = wxk as i8;
    b[bx] = if same { bxk as i8 } else { -(bxk as i8) };
    Some(Pos { b, wtm, castle: 0, ep: None, half: 0, full: 1 })
}

impl Table4 {
    pub const N: usize = 64 * 64 * 64 * 64 * 2;

    pub fn build(wxk: Kind, bxk: Kind, same: bool, tb3: &Tablebases, threads: usize) -> Table4 {
        let n = Self::N;
        // pass 1 (parallel over white-king squares): classify and collect successors
        let chunk = 64 * 64 * 64 * 2 * 1; // positions per white-king square / 1
        let per_wk = n / 64;
        let _ = chunk;
        let mut parts: Vec<(Vec<i16>, Vec<u32>, Vec<u32>)> = Vec::new(); // (val, offsets (len per_wk+1), flat succ)
        let wks: Vec<usize> = (0..64).collect();
        std::thread::scope(|sc| {
            let mut handles = vec![];
            for group in wks.chunks((64 + threads - 1) / threads) {
                let group = group.to_vec();
                handles.push(sc.spawn(move || {
                    let mut out = vec![];
                    for wk in group {
                        let mut val = vec![UNK; per_wk];
                        let mut off: Vec<u32> = Vec::with_capacity(per_wk + 1);
                        let mut flat: Vec<u32> = Vec::new();
                        for k in 0..per_wk {
                            off.push(flat.len() as u32);
                            let i = wk * per_wk + k;
                            let Some(p) = pos_of(i, wxk, bxk, same) else {
                                val[k] = ILLEGAL;
                                continue;
                            };
                            if p.in_check(!p.wtm) {
                                val[k] = ILLEGAL;
                                continue;
                            }
                            let ms = p.legal_moves();
                            if ms.is_empty() {
                                val[k] = if p.in_check(p.wtm) { enc(Val::Loss(0)) } else { DRAW };
                                continue;
                            }
                            for m in ms {
                                let c = p.make(&m);
                                if let Some(j) = locate(&c, wxk, bxk, same) {
                                    flat.push(j as u32);
                                } else {
                                    // a capture: exact value from the 3-man tables (or bare kings)
                                    let v = tb3.probe(&c).expect("3-man value after a capture");
                                    // encode fixed values above the index range
                                    flat.push(u32::MAX - (enc(v) as u16 as u32));
                                }
                            }
                        }
                        off.push(flat.len() as u32);
                        out.push((wk, val, off, flat));
                    }
                    out
                }));
            }
            let mut all = vec![];
            for h in handles {
                all.extend(h.join().unwrap());
            }
            all.sort_by_key(|x| x.0);
            for (_, v, o, f) in all {
                parts.push((v, o, f));
            }
        });
        let mut val: Vec<i16> = Vec::with_capacity(n);
        for p in parts.iter() {
            val.extend_from_slice(&p.0);
        }
        let fixed_floor = u32::MAX - 0xffff;
        let get = |val: &Vec<i16>, s: u32| -> i16 {
            if s >= fixed_floor {
                (u32::MAX - s) as u16 as i16
            } else {
                val[s as usize]
            }
        };
        // pass 2: sweeps by increasing distance
        let mut d: i16 = 0;
        let mut idle = 0;
        loop {
            d += 1;
            let mut updates: Vec<(usize, i16)> = vec![];
            std::thread::scope(|sc| {
                let mut handles = vec![];
                let valr = &val;
                let partsr = &parts;
                for group in wks.chunks((64 + threads - 1) / threads) {
                    let group = group.to_vec();
                    handles.push(sc.spawn(move || {
                        let mut ups = vec![];
                        for wk in group {
                            let (_, off, flat) = &partsr[wk];
                            for k in 0..per_wk {
                                let i = wk * per_wk + k;
                                if valr[i] != UNK {
                                    continue;
                                }
                                let succ = &flat[off[k] as usize..off[k + 1] as usize];
                                if d % 2 == 1 {
                                    let want = enc(Val::Loss((d - 1) as u16));
                                    if succ.iter().any(|s| get(valr, *s) == want) {
                                        ups.push((i, enc(Val::Win(d as u16))));
                                    }
                                } else {
                                    let mut all = true;
                                    let mut mx = 0i16;
                                    for s in succ {
                                        let v = get(valr, *s);
                                        if v > 0 {
                                            mx = mx.max(v);
                                        } else {
                                            all = false;
                                            break;
                                        }
                                    }
                                    if all && mx == d - 1 {
                                        ups.push((i, enc(Val::Loss(d as u16))));
                                    }
                                }
                            }
                        }
                        ups
                    }));
                }
                for h in handles {
                    updates.extend(h.join().unwrap());
                }
            });
            if updates.is_empty() {
                idle += 1;
            } else {
                idle = 0;
            }
            for (i, v) in updates {
                val[i] = v;
            }
            if idle >= 4 || d > 400 {
                break;
            }
        }
        for v in val.iter_mut() {
            if *v == UNK {
                *v = DRAW;
            }
        }
        Table4 { wx: wxk, bx: bxk, same, val: val.into_iter().map(pack).collect() }
    }

    pub fn probe_raw(&self, p: &Pos) -> Option<Val> {
        locate(p, self.wx, self.bx, self.same).and_then(|i| dec(unpack(self.val[i])))
    }

    /// A random legal position of this table whose value satisfies `pred` (None after `tries` probes).
    pub fn sample<R: rand::Rng, F: Fn(Val) -> bool>(&self, rng: &mut R, pred: F, tries: usize) -> Option<(Pos, Val)> {
        for _ in 0..tries {
            let i = rng.gen_range(0..Self::N);
            if let Some(v) = dec(unpack(self.val[i])) {
                if pred(v) {
                    if let Some(p) = pos_of(i, self.wx, self.bx, self.same) {
                        return Some((p, v));
                    }
                }
            }
        }
        None
    }

    pub fn name(&self) -> String {
        if self.same {
            format!("K{}{}vK", self.wx.letter(), self.bx.letter())
        } else {
            format!("K{}vK{}", self.wx.letter(), self.bx.letter())
        }
    }

    pub fn max_win(&self) -> u16 {
        self.val.iter().filter_map(|v| match dec(unpack(*v)) {
            Some(Val::Win(n)) => Some(n),
            _ => None,
        }).max().unwrap_or(0)
    }

    pub fn save(&self, path: &str) -> std::io::Result<()> {
        let mut f = std::io::BufWriter::new(std::fs::File::create(path)?);
        f.write_all(if self.same { b"WVTB4S" } else { b"WVTB4\0" })?;
        f.write_all(&[self.wx as u8, self.bx as u8])?;
        for v in self.val.iter() {
            f.write_all(&unpack(*v).to_le_bytes())?;
        }
        Ok(())
    }

    pub fn load(path: &str) -> std::io::Result<Table4> {
        let mut f = std::io::BufReader::new(std::fs::File::open(path)?);
        let mut head = [0u8; 8];
        f.read_exact(&mut head)?;
        if &head[..6] != b"WVTB4\0" && &head[..6] != b"WVTB4S" {
            return Err(std::io::Error::new(std::io::ErrorKind::InvalidData, "bad header"));
        }
        let mut bytes = Vec::new();
        f.read_to_end(&mut bytes)?;
        if bytes.len() != Self::N * 2 {
            return Err(std::io::Error::new(std::io::ErrorKind::InvalidData, "bad length"));
        }
        let val = bytes.chunks_exact(2).map(|c| pack(i16::from_le_bytes([c[0], c[1]]))).collect();
        Ok(Table4 { wx: Kind::from_i8(head[6] as i8), bx: Kind::from_i8(head[7] as i8), same: &head[..6] == b"WVTB4S", val })
    }
}

/// A set of 4-man tables; a position is looked up directly or colour-mirrored.
pub struct Tablebases4 {
    pub tables: Vec<Table4>,
}

/// (first piece, second piece, same side, longest win in plies). The longest wins are the published
/// distance-to-mate maxima (KRKR 19 moves, KQKQ 13, KQKR 35, KRKB 29, KRKN 40, KQKB 17, KQKN 21, KBKB / KBKN / KNKN 1,
/// KBNK 33, KBBK 19, KNNK 1, KRBK / KRNK 16); a loaded table that does not reproduce its maximum is ignored.
pub const CLASSES: [(Kind, Kind, bool, u16); 15] = [
    (Kind::R, Kind::R, false, 37),
    (Kind::Q, Kind::Q, false, 25),
    (Kind::Q, Kind::R, false, 69),
    (Kind::R, Kind::B, false, 57),
    (Kind::R, Kind::N, false, 79),
    (Kind::Q, Kind::B, false, 33),
    (Kind::Q, Kind::N, false, 41),
    (Kind::B, Kind::B, false, 1),
    (Kind::B, Kind::N, false, 1),
    (Kind::N, Kind::N, false, 1),
    (Kind::B, Kind::N, true, 65),
    (Kind::B, Kind::B, true, 37),
    (Kind::N, Kind::N, true, 1),
    (Kind::R, Kind::B, true, 31),
    (Kind::R, Kind::N, true, 31),
];

pub fn cache_path(w: Kind, b: Kind, same: bool) -> String {
    if same {
        format!("/verif/cache/tb4-K{}{}vK.bin", w.letter(), b.letter())
    } else {
        format!("/verif/cache/tb4-K{}vK{}.bin", w.letter(), b.letter())
    }
}

impl Tablebases4 {
    pub fn load_cached() -> Tablebases4 {
        let mut tables = vec![];
        for (w, b, same, known) in CLASSES.iter() {
            if let Ok(t) = Table4::load(&cache_path(*w, *b, *same)) {
                if t.wx == *w && t.bx == *b && t.same == *same && t.max_win() == *known {
                    tables.push(t);
                }
            }
        }
        Tablebases4 { tables }
    }

    pub fn probe(&self, p: &Pos) -> Option<Val> {
        if p.men() != 4 {
            return None;
        }
        for t in self.tables.iter() {
            if let Some(v) = t.probe_raw(p) {
                return Some(v);
            }
            let m = p.mirror();
            if let Some(v) = t.probe_raw(&m) {
                return Some(v);
            }
        }
        None
    }
}
