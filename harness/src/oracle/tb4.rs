//! Exact values for pawnless 4-man endings K+X vs K+Y (X, Y in Q,R,B,N), built by retrograde
//! analysis on `oracle::rules` with stored successor lists (CSR) and parallel sweeps. Captures
//! fall into the 3-man tablebases. Built once by `./check --setup` into /verif/cache (the tables
//! depend only on the oracle, never on /repo) and loaded by the checks when present.

use super::rules::*;
use super::tb::{Tablebases, Val};
use std::io::{Read, Write};

const UNK: i16 = i16::MIN;
const DRAW: i16 = i16::MIN + 1;
const ILLEGAL: i16 = i16::MIN + 2;

fn enc(v: Val) -> i16 {
    match v {
        Val::Win(n) => n as i16,
        Val::Loss(n) => -(n as i16) - 1,
        Val::Draw => DRAW,
    }
}
fn dec(v: i16) -> Option<Val> {
    if v == DRAW {
        Some(Val::Draw)
    } else if v == UNK || v == ILLEGAL {
        None
    } else if v > 0 {
        Some(Val::Win(v as u16))
    } else {
        Some(Val::Loss((-(v + 1)) as u16))
    }
}

pub struct Table4 {
    pub wx: Kind,
    pub bx: Kind,
    val: Vec<i16>,
}

#[inline]
fn idx(wk: usize, bk: usize, wx: usize, bx: usize, wtm: bool) -> usize {
    ((((wk * 64 + bk) * 64 + wx) * 64 + bx) << 1) | (!wtm as usize)
}

fn locate(p: &Pos, wxk: Kind, bxk: Kind) -> Option<usize> {
    let (mut wk, mut bk, mut wx, mut bx) = (None, None, None, None);
    let mut n = 0;
    for s in 0..64usize {
        let v = p.b[s];
        if v == 0 {
            continue;
        }
        n += 1;
        if v == 6 {
            wk = Some(s)
        } else if v == -6 {
            bk = Some(s)
        } else if v == wxk as i8 && wx.is_none() {
            wx = Some(s)
        } else if v == -(bxk as i8) && bx.is_none() {
            bx = Some(s)
        } else {
            return None;
        }
    }
    if n != 4 {
        return None;
    }
    Some(idx(wk?, bk?, wx?, bx?, p.wtm))
}

fn pos_of(i: usize, wxk: Kind, bxk: Kind) -> Option<Pos> {
    let wtm = i & 1 == 0;
    let j = i >> 1;
    let (bx, wx, bk, wk) = (j % 64, (j / 64) % 64, (j / 4096) % 64, j / 262144);
    if wk == bk || wk == wx || wk == bx || bk == wx || bk == bx || wx == bx {
        return None;
    }
    let mut b = [0i8; 64];
    b[wk] = 6;
    b[bk] = -6;
    b[wx] = wxk as i8;
    b[bx] = -(bxk as i8);
    Some(Pos { b, wtm, castle: 0, ep: None, half: 0, full: 1 })
}

impl Table4 {
    pub const N: usize = 64 * 64 * 64 * 64 * 2;

    pub fn build(wxk: Kind, bxk: Kind, tb3: &Tablebases, threads: usize) -> Table4 {
        let n = Self::N;
        // pass 1 (parallel over white-king squares): classify and collect successors
        let chunk = 64 * 64 * 64 * 2 * 1; // positions per white-king square / 1
        let per_wk = n / 64;
        let _ = chunk;
        let mut parts: Vec<(Vec<i16>, Vec<u32>, Vec<u32>)> = Vec::new(); // (val, offsets (len per_wk+1), flat succ)
        let wks: Vec<usize> = (0..64).collect();
        std::thread::scope(|sc| {
            let mut handles = vec![];
            for group in wks.chunks((64 + threads - 1) / threads) {
                let group = group.to_vec();
                handles.push(sc.spawn(move || {
                    let mut out = vec![];
                    for wk in group {
                        let mut val = vec![UNK; per_wk];
                        let mut off: Vec<u32> = Vec::with_capacity(per_wk + 1);
                        let mut flat: Vec<u32> = Vec::new();
                        for k in 0..per_wk {
                            off.push(flat.len() as u32);
                            let i = wk * per_wk + k;
                            let Some(p) = pos_of(i, wxk, bxk) else {
                                val[k] = ILLEGAL;
                                continue;
                            };
                            if p.in_check(!p.wtm) {
                                val[k] = ILLEGAL;
                                continue;
                            }
                            let ms = p.legal_moves();
                            if ms.is_empty() {
                                val[k] = if p.in_check(p.wtm) { enc(Val::Loss(0)) } else { DRAW };
                                continue;
                            }
                            for m in ms {
                                let c = p.make(&m);
                                if let Some(j) = locate(&c, wxk, bxk) {
                                    flat.push(j as u32);
                                } else {
                                    // a capture: exact value from the 3-man tables (or bare kings)
                                    let v = tb3.probe(&c).expect("3-man value after a capture");
                                    // encode fixed values above the index range
                                    flat.push(u32::MAX - (enc(v) as u16 as u32));
                                }
                            }
                        }
                        off.push(flat.len() as u32);
                        out.push((wk, val, off, flat));
                    }
                    out
                }));
            }
            let mut all = vec![];
            for h in handles {
                all.extend(h.join().unwrap());
            }
            all.sort_by_key(|x| x.0);
            for (_, v, o, f) in all {
                parts.push((v, o, f));
            }
        });
        let mut val: Vec<i16> = Vec::with_capacity(n);
        for p in parts.iter() {
            val.extend_from_slice(&p.0);
        }
        let fixed_floor = u32::MAX - 0xffff;
        let get = |val: &Vec<i16>, s: u32| -> i16 {
            if s >= fixed_floor {
                (u32::MAX - s) as u16 as i16
            } else {
                val[s as usize]
            }
        };
        // pass 2: sweeps by increasing distance
        let mut d: i16 = 0;
        let mut idle = 0;
        loop {
            d += 1;
            let mut updates: Vec<(usize, i16)> = vec![];
            std::thread::scope(|sc| {
                let mut handles = vec![];
                let valr = &val;
                let partsr = &parts;
                for group in wks.chunks((64 + threads - 1) / threads) {
                    let group = group.to_vec();
                    handles.push(sc.spawn(move || {
                        let mut ups = vec![];
                        for wk in group {
                            let (_, off, flat) = &partsr[wk];
                            for k in 0..per_wk {
                                let i = wk * per_wk + k;
                                if valr[i] != UNK {
                                    continue;
                                }
                                let succ = &flat[off[k] as usize..off[k + 1] as usize];
                                if d % 2 == 1 {
                                    let want = enc(Val::Loss((d - 1) as u16));
                                    if succ.iter().any(|s| get(valr, *s) == want) {
                                        ups.push((i, enc(Val::Win(d as u16))));
                                    }
                                } else {
                                    let mut all = true;
                                    let mut mx = 0i16;
                                    for s in succ {
                                        let v = get(valr, *s);
                                        if v > 0 {
                                            mx = mx.max(v);
                                        } else {
                                            all = false;
                                            break;
                                        }
                                    }
                                    if all && mx == d - 1 {
                                        ups.push((i, enc(Val::Loss(d as u16))));
                                    }
                                }
                            }
                        }
                        ups
                    }));
                }
                for h in handles {
                    updates.extend(h.join().unwrap());
                }
            });
            if updates.is_empty() {
                idle += 1;
            } else {
                idle = 0;
            }
            for (i, v) in updates {
                val[i] = v;
            }
            if idle >= 4 || d > 400 {
                break;
            }
        }
        for v in val.iter_mut() {
            if *v == UNK {
                *v = DRAW;
            }
        }
        Table4 { wx: wxk, bx: bxk, val }
    }

    pub fn probe_raw(&self, p: &Pos) -> Option<Val> {
        locate(p, self.wx, self.bx).and_then(|i| dec(self.val[i]))
    }

    pub fn max_win(&self) -> u16 {
        self.val.iter().filter_map(|v| match dec(*v) {
            Some(Val::Win(n)) => Some(n),
            _ => None,
        }).max().unwrap_or(0)
    }

    pub fn save(&self, path: &str) -> std::io::Result<()> {
        let mut f = std::io::BufWriter::new(std::fs::File::create(path)?);
        f.write_all(b"WVTB4\0")?;
        f.write_all(&[self.wx as u8, self.bx as u8])?;
        for v in self.val.iter() {
            f.write_all(&v.to_le_bytes())?;
        }
        Ok(())
    }

    pub fn load(path: &str) -> std::io::Result<Table4> {
        let mut f = std::io::BufReader::new(std::fs::File::open(path)?);
        let mut head = [0u8; 8];
        f.read_exact(&mut head)?;
        if &head[..6] != b"WVTB4\0" {
            return Err(std::io::Error::new(std::io::ErrorKind::InvalidData, "bad header"));
        }
        let mut bytes = Vec::new();
        f.read_to_end(&mut bytes)?;
        if bytes.len() != Self::N * 2 {
            return Err(std::io::Error::new(std::io::ErrorKind::InvalidData, "bad length"));
        }
        let val = bytes.chunks_exact(2).map(|c| i16::from_le_bytes([c[0], c[1]])).collect();
        Ok(Table4 { wx: Kind::from_i8(head[6] as i8), bx: Kind::from_i8(head[7] as i8), val })
    }
}

/// A set of 4-man tables; a position is looked up directly or colour-mirrored.
pub struct Tablebases4 {
    pub tables: Vec<Table4>,
}

pub const CLASSES: [(Kind, Kind); 7] = [(Kind::R, Kind::R), (Kind::Q, Kind::Q), (Kind::Q, Kind::R), (Kind::R, Kind::B), (Kind::R, Kind::N), (Kind::Q, Kind::B), (Kind::Q, Kind::N)];

pub fn cache_path(w: Kind, b: Kind) -> String {
    format!("/verif/cache/tb4-K{}vK{}.bin", w.letter(), b.letter())
}

impl Tablebases4 {
    pub fn load_cached() -> Tablebases4 {
        let mut tables = vec![];
        // published longest wins (plies) validate a loaded table: KRKR 19 moves, KQKQ 13, KQKR 35, KRKB 29, KRKN 40, KQKB 17, KQKN 21
        let known = [37u16, 25, 69, 57, 79, 33, 41];
        for (i, (w, b)) in CLASSES.iter().enumerate() {
            if let Ok(t) = Table4::load(&cache_path(*w, *b)) {
                if t.wx == *w && t.bx == *b && t.max_win() == known[i] {
                    tables.push(t);
                }
            }
        }
        Tablebases4 { tables }
    }

    pub fn probe(&self, p: &Pos) -> Option<Val> {
        if p.men() != 4 {
            return None;
        }
        for t in self.tables.iter() {
            if let Some(v) = t.probe_raw(p) {
                return Some(v);
            }
            let m = p.mirror();
            if let Some(v) = t.probe_raw(&m) {
                return Some(v);
            }
        }
        None
    }
}
