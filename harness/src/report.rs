//! Per-shard result: counters, distinct-case digests, samples, violations, inconclusive notes.
//! Written as JSON; the `check` driver merges shards, applies known findings, writes evidence.

use serde_json::{json, Value};
use std::collections::{BTreeMap, HashSet};
use std::time::Instant;

pub struct Ctx {
    pub prop: String,
    pub tier: String,
    pub seed: u64,
    pub shard: usize,
    pub of: usize,
    pub out: Option<String>,
    pub replay: Option<String>,
    pub mode: String,
    pub bin: Option<String>,
    pub bin2: Option<String>,
    pub scale: f64,
    pub start: Instant,
    pub budget_s: f64,
}

impl Ctx {
    pub fn thorough(&self) -> bool {
        self.tier == "thorough"
    }
    /// pick a size by tier, scaled, divided among shards
    pub fn n(&self, quick: u64, thorough: u64) -> u64 {
        let base = if self.thorough() { thorough } else { quick } as f64 * self.scale;
        ((base / self.of as f64).ceil() as u64).max(1)
    }
    /// whole-run size (not divided)
    pub fn total(&self, quick: u64, thorough: u64) -> u64 {
        ((if self.thorough() { thorough } else { quick }) as f64 * self.scale).ceil() as u64
    }
    /// soft time box: generators stop producing new cases after it (never a verdict)
    pub fn time_left(&self) -> bool {
        self.start.elapsed().as_secs_f64() < self.budget_s
    }
    pub fn mine(&self, i: u64) -> bool {
        (i % self.of as u64) as usize == self.shard
    }
}

pub struct Report {
    pub evaluations: u64,
    pub distinct: HashSet<u64>,
    pub distinct_cap: usize,
    pub distinct_capped: bool,
    pub counters: BTreeMap<String, u64>,
    pub maxima: BTreeMap<String, u64>,
    pub samples: Vec<Value>,
    pub violations: Vec<Value>,
    pub violation_count: u64,
    pub inconclusive: Vec<String>,
    pub notes: Vec<String>,
    /// named auxiliary distinct-sets (e.g. interleaving signatures); reported as counters `distinct_<name>` per shard
    pub aux: BTreeMap<String, HashSet<u64>>,
}

impl Report {
    pub fn new() -> Self {
        Report {
            evaluations: 0,
            distinct: HashSet::new(),
            distinct_cap: 1 << 20,
            distinct_capped: false,
            counters: BTreeMap::new(),
            maxima: BTreeMap::new(),
            samples: vec![],
            violations: vec![],
            violation_count: 0,
            inconclusive: vec![],
            notes: vec![],
            aux: BTreeMap::new(),
        }
    }
    pub fn eval(&mut self, n: u64) {
        self.evaluations += n;
    }
    pub fn distinct(&mut self, h: u64) {
        if self.distinct.len() < self.distinct_cap {
            self.distinct.insert(h);
        } else {
            self.distinct_capped = true;
        }
    }
    pub fn count(&mut self, k: &str, n: u64) {
        *self.counters.entry(k.to_string()).or_insert(0) += n;
    }
    pub fn max(&mut self, k: &str, n: u64) {
        let e = self.maxima.entry(k.to_string()).or_insert(0);
        if n > *e {
            *e = n;
        }
    }
    pub fn sample(&mut self, v: Value) {
        if self.samples.len() < 6 {
            self.samples.push(v);
        }
    }
    /// `signature` identifies the failing case exactly (used for known findings);
    /// `replay` is the minimal case for `--replay`.
    pub fn violation(&mut self, kind: &str, signature: &str, detail: &str, replay: Value) {
        self.violation_count += 1;
        if self.violations.len() < 40 {
            eprintln!("violation[{}] {} :: {}", kind, signature, detail);
            self.violations.push(json!({"kind": kind, "signature": signature, "detail": detail, "replay": replay}));
        }
    }
    pub fn inconclusive(&mut self, msg: &str) {
        if self.inconclusive.len() < 40 {
            self.inconclusive.push(msg.to_string());
        }
    }
    pub fn aux_distinct(&mut self, name: &str, h: u64) {
        let e = self.aux.entry(name.to_string()).or_default();
        if e.len() < 2_000_000 {
            e.insert(h);
        }
    }
    pub fn note(&mut self, msg: &str) {
        self.notes.push(msg.to_string());
    }

    pub fn to_json(&self, ctx: &Ctx) -> Value {
        let mut d: Vec<u64> = self.distinct.iter().copied().collect();
        d.sort_unstable();
        let mut counters = self.counters.clone();
        for (k, v) in self.aux.iter() {
            counters.insert(format!("distinct_{}_summed_over_shards", k), v.len() as u64);
        }
        json!({
            "property": ctx.prop, "tier": ctx.tier, "seed": ctx.seed, "shard": ctx.shard, "of": ctx.of, "mode": ctx.mode,
            "evaluations": self.evaluations,
            "distinct": d,
            "distinct_capped": self.distinct_capped,
            "counters": counters,
            "maxima": self.maxima,
            "samples": self.samples,
            "violations": self.violations,
            "violation_count": self.violation_count,
            "inconclusive": self.inconclusive,
            "notes": self.notes,
            "wall_s": ctx.start.elapsed().as_secs_f64(),
        })
    }

    pub fn write(&self, ctx: &Ctx) {
        let v = self.to_json(ctx);
        match &ctx.out {
            Some(p) => std::fs::write(p, serde_json::to_vec(&v).unwrap()).expect("write shard output"),
            None => {
                let mut w = v.clone();
                let n = w["distinct"].as_array().map(|a| a.len()).unwrap_or(0);
                w["distinct"] = json!(n);
                println!("{}", serde_json::to_string_pretty(&w).unwrap());
            }
        }
    }
}

pub fn fnv(s: &str) -> u64 {
    let mut h: u64 = 0xcbf29ce484222325;
    for b in s.bytes() {
        h ^= b as u64;
        h = h.wrapping_mul(0x100000001b3);
    }
    h
}

pub fn mix(a: u64, b: u64) -> u64 {
    let mut x = a ^ b.wrapping_mul(0x9E3779B97F4A7C15);
    x ^= x >> 31;
    x = x.wrapping_mul(0xD6E8FEB86659FD93);
    x ^ (x >> 29)
}
