//! Independent reader for the PGN-like files in book/: tag pairs are skipped, a game's movetext is
//! the token sequence from a token that starts with the move number "1." up to the result token
//! (or the next tag section); blank lines are whitespace; anything else between games is not a game.

use crate::oracle::rules::*;

pub struct Game {
    pub file: String,
    pub index: usize,
    /// SAN tokens with move numbers removed
    pub san: Vec<String>,
}

fn strip_number(t: &str) -> Option<&str> {
    // "12.Nf3" -> "Nf3"; "12." -> None; "Nf3" -> "Nf3"
    let bytes = t.as_bytes();
    let mut i = 0;
    while i < bytes.len() && bytes[i].is_ascii_digit() {
        i += 1;
    }
    if i > 0 && i < bytes.len() && bytes[i] == b'.' {
        let mut j = i;
        while j < bytes.len() && bytes[j] == b'.' {
            j += 1;
        }
        if j == bytes.len() {
            None
        } else {
            Some(&t[j..])
        }
    } else {
        Some(t)
    }
}

fn starts_game(t: &str) -> bool {
    t.starts_with("1.") && !t.starts_with("1..")
}

pub fn read_dir(dir: &str) -> Result<Vec<Game>, String> {
    let mut files: Vec<_> = std::fs::read_dir(dir).map_err(|e| e.to_string())?.filter_map(|e| e.ok()).filter(|e| e.file_type().map(|t| t.is_file()).unwrap_or(false)).map(|e| e.path()).collect();
    files.sort();
    let mut games = vec![];
    for f in files {
        let text = String::from_utf8_lossy(&std::fs::read(&f).map_err(|e| e.to_string())?).to_string();
        let name = f.file_name().unwrap().to_string_lossy().to_string();
        let mut cur: Option<Vec<String>> = None;
        let mut idx = 0;
        let mut finish = |cur: &mut Option<Vec<String>>, games: &mut Vec<Game>, idx: &mut usize| {
            if let Some(san) = cur.take() {
                games.push(Game { file: name.clone(), index: *idx, san });
                *idx += 1;
            }
        };
        for line in text.lines() {
            if line.trim_start().starts_with('[') {
                finish(&mut cur, &mut games, &mut idx);
                continue;
            }
            for t in line.split_whitespace() {
                match cur.as_mut() {
                    None => {
                        if starts_game(t) {
                            let mut v = vec![];
                            if let Some(s) = strip_number(t) {
                                v.push(s.to_string());
                            }
                            cur = Some(v);
                        }
                    }
                    Some(v) => {
                        if matches!(t, "1-0" | "0-1" | "1/2-1/2" | "*") {
                            finish(&mut cur, &mut games, &mut idx);
                        } else if let Some(s) = strip_number(t) {
                            v.push(s.to_string());
                        }
                    }
                }
            }
        }
        finish(&mut cur, &mut games, &mut idx);
    }
    Ok(games)
}

/// The unique legal move one of whose admissible spellings equals the token
pub fn resolve(p: &Pos, token: &str) -> Result<OMove, usize> {
    let legal = p.legal_moves();
    let hits: Vec<OMove> = legal.iter().copied().filter(|m| p.san_spellings(m, &legal).iter().any(|s| s == token)).collect();
    if hits.len() == 1 {
        Ok(hits[0])
    } else {
        Err(hits.len())
    }
}
