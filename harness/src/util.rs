use std::cell::RefCell;
use std::panic::{catch_unwind, AssertUnwindSafe};
use std::sync::atomic::{AtomicU64, Ordering};
use std::sync::Mutex;

thread_local! {
    static LAST_PANIC: RefCell<Option<String>> = RefCell::new(None);
}
/// panics on *any* thread (rayon workers, search/control threads), newest last
pub static ALL_PANICS: Mutex<Vec<String>> = Mutex::new(Vec::new());
pub static PANIC_COUNT: AtomicU64 = AtomicU64::new(0);

pub fn install_panic_hook() {
    std::panic::set_hook(Box::new(|info| {
        let loc = info.location().map(|l| format!("{}:{}", l.file(), l.line())).unwrap_or_default();
        let msg = info
            .payload()
            .downcast_ref::<String>()
            .cloned()
            .or_else(|| info.payload().downcast_ref::<&str>().map(|s| s.to_string()))
            .unwrap_or_else(|| "<non-string panic>".into());
        let mut short: String = msg.chars().take(300).collect();
        short = short.replace('\n', " ");
        let s = format!("{} @ {}", short, loc);
        LAST_PANIC.with(|l| *l.borrow_mut() = Some(s.clone()));
        PANIC_COUNT.fetch_add(1, Ordering::SeqCst);
        if let Ok(mut v) = ALL_PANICS.lock() {
            if v.len() < 100 {
                v.push(s);
            }
        }
    }));
}

/// Run a monitored call; a panic becomes Err(message @ location)
pub fn guard<T>(f: impl FnOnce() -> T) -> Result<T, String> {
    LAST_PANIC.with(|l| *l.borrow_mut() = None);
    match catch_unwind(AssertUnwindSafe(f)) {
        Ok(v) => Ok(v),
        Err(_) => Err(LAST_PANIC
            .with(|l| l.borrow_mut().take())
            // the panic may have happened on a pool thread and been propagated by rayon
            .or_else(|| ALL_PANICS.lock().ok().and_then(|v| v.last().cloned()))
            .unwrap_or_else(|| "panic".into())),
    }
}

pub fn panics_since(mark: u64) -> Vec<String> {
    let n = PANIC_COUNT.load(Ordering::SeqCst);
    if n <= mark {
        return vec![];
    }
    let v = ALL_PANICS.lock().unwrap();
    let k = (n - mark) as usize;
    v.iter().rev().take(k).cloned().collect()
}

pub fn panic_mark() -> u64 {
    PANIC_COUNT.load(Ordering::SeqCst)
}
