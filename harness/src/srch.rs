//! Search driver and the global observer: event counters, interleaving signatures, seeded delay
//! injection at the shared-table access points, and logical triggers ("Stop at the k-th node").

use crate::conv::*;
use crate::oracle::rules::*;
use crate::util::guard;
use std::cell::Cell;
use std::sync::atomic::{AtomicBool, AtomicU64, AtomicUsize, Ordering::*};
use std::sync::{Arc, Mutex};
use weechess_core::{Move, State};
use weechess_engine::eval::{Evaluation, Evaluator};
use weechess_engine::searcher::verif::{self, Cancel, Site};
use weechess_engine::searcher::{SearchArtifact, StatusEvent};

// ---------------------------------------------------------------------------------------------
// observer state (all atomics: the monitor must not become the race)

pub static EPOCH: AtomicU64 = AtomicU64::new(1);
pub static NODES: AtomicU64 = AtomicU64::new(0);
pub static QNODES: AtomicU64 = AtomicU64::new(0);
/// largest number of quiescence nodes any single thread entered after Cancel fired
pub static MAX_THREAD_QNODES_AFTER_CANCEL: AtomicU64 = AtomicU64::new(0);
pub static FINDS: AtomicU64 = AtomicU64::new(0);
pub static INSERTS: AtomicU64 = AtomicU64::new(0);
pub static CANCEL_SEEN: AtomicBool = AtomicBool::new(false);
pub static NODES_AT_CANCEL: AtomicU64 = AtomicU64::new(0);
/// largest number of nodes any single thread entered after Cancel fired
pub static MAX_THREAD_NODES_AFTER_CANCEL: AtomicU64 = AtomicU64::new(0);
pub static THREADS_SEEN: AtomicUsize = AtomicUsize::new(0);
/// trigger: fire `TRIGGER` when the global node count reaches this value (0 = off)
pub static TRIGGER_AT_NODE: AtomicU64 = AtomicU64::new(0);
pub static TRIGGER_FIRED: AtomicBool = AtomicBool::new(false);
static TRIGGER: Mutex<Option<Box<dyn Fn() + Send + Sync>>> = Mutex::new(None);
/// delay injection: probability per table access in 1/65536, and the seed
pub static DELAY_P: AtomicU64 = AtomicU64::new(0);
pub static DELAY_SEED: AtomicU64 = AtomicU64::new(0);
/// stall: thread index `STALL_THREAD` sleeps STALL_US at its STALL_AT-th table access
pub static STALL_AT: AtomicU64 = AtomicU64::new(0);
pub static STALL_THREAD: AtomicUsize = AtomicUsize::new(usize::MAX);
pub static STALL_US: AtomicU64 = AtomicU64::new(0);
pub static DELAYS_INJECTED: AtomicU64 = AtomicU64::new(0);
/// signature of the first SIG_LEN (thread, site) events
const SIG_LEN: usize = 256;
static SIG_N: AtomicUsize = AtomicUsize::new(0);
static SIG: Mutex<Vec<u8>> = Mutex::new(Vec::new());
static OBSERVER_INSTALLED: AtomicBool = AtomicBool::new(false);

thread_local! {
    static TL_EPOCH: Cell<u64> = Cell::new(0);
    static TL_IDX: Cell<usize> = Cell::new(0);
    static TL_RNG: Cell<u64> = Cell::new(0);
    static TL_ACCESS: Cell<u64> = Cell::new(0);
    static TL_AFTER: Cell<u64> = Cell::new(0);
    static TL_QAFTER: Cell<u64> = Cell::new(0);
    static TL_Q: Cell<u64> = Cell::new(0);
}

fn tl_enter() -> usize {
    let e = EPOCH.load(Relaxed);
    TL_EPOCH.with(|c| {
        if c.get() != e {
            c.set(e);
            let idx = THREADS_SEEN.fetch_add(1, Relaxed);
            TL_IDX.with(|i| i.set(idx));
            TL_RNG.with(|r| r.set(DELAY_SEED.load(Relaxed) ^ (idx as u64 + 1).wrapping_mul(0x9E3779B97F4A7C15)));
            TL_ACCESS.with(|a| a.set(0));
            TL_AFTER.with(|a| a.set(0));
            TL_QAFTER.with(|a| a.set(0));
            TL_Q.with(|a| a.set(0));
        }
    });
    TL_IDX.with(|i| i.get())
}

fn tl_rand() -> u64 {
    TL_RNG.with(|r| {
        let mut x = r.get();
        x ^= x << 13;
        x ^= x >> 7;
        x ^= x << 17;
        r.set(x);
        x
    })
}

fn observe(site: Site, _key: u64) {
    let idx = tl_enter();
    match site {
        Site::Node => {
            let n = NODES.fetch_add(1, Relaxed) + 1;
            if CANCEL_SEEN.load(Relaxed) {
                let a = TL_AFTER.with(|c| {
                    c.set(c.get() + 1);
                    c.get()
                });
                MAX_THREAD_NODES_AFTER_CANCEL.fetch_max(a, Relaxed);
            }
            let t = TRIGGER_AT_NODE.load(Relaxed);
            if t != 0 && n >= t && !TRIGGER_FIRED.swap(true, SeqCst) {
                if let Some(f) = TRIGGER.lock().unwrap().as_ref() {
                    f();
                }
            }
        }
        Site::TableFind | Site::TableInsert => {
            if site == Site::TableFind {
                FINDS.fetch_add(1, Relaxed);
            } else {
                INSERTS.fetch_add(1, Relaxed);
            }
            let k = SIG_N.fetch_add(1, Relaxed);
            if k < SIG_LEN {
                if let Ok(mut s) = SIG.lock() {
                    s.push(((idx as u8) << 1) | (site == Site::TableInsert) as u8);
                }
            }
            let acc = TL_ACCESS.with(|c| {
                c.set(c.get() + 1);
                c.get()
            });
            // the perturbations happen outside the table locks (the call site is before the lock)
            let p = DELAY_P.load(Relaxed);
            if p != 0 {
                let r = tl_rand();
                if (r & 0xffff) < p {
                    DELAYS_INJECTED.fetch_add(1, Relaxed);
                    match (r >> 16) % 4 {
                        0 => std::thread::yield_now(),
                        1 => {
                            for _ in 0..((r >> 20) % 2000) {
                                std::hint::spin_loop();
                            }
                        }
                        2 => std::thread::sleep(std::time::Duration::from_micros((r >> 20) % 50)),
                        _ => {
                            std::thread::yield_now();
                            std::thread::yield_now();
                        }
                    }
                }
            }
            if STALL_THREAD.load(Relaxed) == idx && STALL_AT.load(Relaxed) == acc {
                DELAYS_INJECTED.fetch_add(1, Relaxed);
                std::thread::sleep(std::time::Duration::from_micros(STALL_US.load(Relaxed)));
            }
        }
        Site::Quiescence => {
            // batched: one shared-counter update per 256 quiescence nodes
            let q = TL_Q.with(|c| {
                c.set(c.get() + 1);
                c.get()
            });
            if q % 256 == 0 {
                QNODES.fetch_add(256, Relaxed);
                if CANCEL_SEEN.load(Relaxed) {
                    let a = TL_QAFTER.with(|c| {
                        c.set(c.get() + 256);
                        c.get()
                    });
                    MAX_THREAD_QNODES_AFTER_CANCEL.fetch_max(a, Relaxed);
                }
            }
        }
        Site::Cancel => {
            if !CANCEL_SEEN.swap(true, SeqCst) {
                NODES_AT_CANCEL.store(NODES.load(Relaxed), Relaxed);
            }
        }
    }
}

pub fn install_observer() {
    if !OBSERVER_INSTALLED.swap(true, SeqCst) {
        verif::set_observer(Some(Arc::new(observe)));
    }
}

/// reset all per-search observer state (call between searches, never during one)
pub fn reset() {
    EPOCH.fetch_add(1, SeqCst);
    NODES.store(0, SeqCst);
    QNODES.store(0, SeqCst);
    MAX_THREAD_QNODES_AFTER_CANCEL.store(0, SeqCst);
    FINDS.store(0, SeqCst);
    INSERTS.store(0, SeqCst);
    CANCEL_SEEN.store(false, SeqCst);
    NODES_AT_CANCEL.store(0, SeqCst);
    MAX_THREAD_NODES_AFTER_CANCEL.store(0, SeqCst);
    THREADS_SEEN.store(0, SeqCst);
    TRIGGER_AT_NODE.store(0, SeqCst);
    TRIGGER_FIRED.store(false, SeqCst);
    *TRIGGER.lock().unwrap() = None;
    DELAY_P.store(0, SeqCst);
    STALL_THREAD.store(usize::MAX, SeqCst);
    STALL_AT.store(0, SeqCst);
    DELAYS_INJECTED.store(0, SeqCst);
    SIG_N.store(0, SeqCst);
    SIG.lock().unwrap().clear();
}

pub fn set_trigger(at_node: u64, f: Box<dyn Fn() + Send + Sync>) {
    *TRIGGER.lock().unwrap() = Some(f);
    TRIGGER_FIRED.store(false, SeqCst);
    TRIGGER_AT_NODE.store(at_node, SeqCst);
}

pub fn set_delays(seed: u64, p_per_65536: u64) {
    DELAY_SEED.store(seed | 1, SeqCst);
    DELAY_P.store(p_per_65536, SeqCst);
}

pub fn set_stall(thread: usize, at_access: u64, micros: u64) {
    STALL_US.store(micros, SeqCst);
    STALL_AT.store(at_access, SeqCst);
    STALL_THREAD.store(thread, SeqCst);
}

/// digest of the first (thread, site) events at the shared table
pub fn signature() -> u64 {
    let s = SIG.lock().unwrap();
    let mut h: u64 = 0xcbf29ce484222325;
    for b in s.iter() {
        h ^= *b as u64;
        h = h.wrapping_mul(0x100000001b3);
    }
    h
}

// ---------------------------------------------------------------------------------------------

#[derive(Clone, Debug)]
pub struct Cfg {
    pub depth: Option<usize>,
    pub workers: Option<usize>,
    pub seed: u64,
}

pub struct Out {
    pub lines: Vec<(Vec<Move>, Evaluation)>,
    pub progress: Vec<(u32, usize, f32)>,
    pub warnings: usize,
    pub artifact: Option<SearchArtifact>,
    pub panic: Option<String>,
}

impl Out {
    pub fn last(&self) -> Option<&(Vec<Move>, Evaluation)> {
        self.lines.last()
    }
}

/// the real iterative search on the caller's thread
pub fn search(st: &State, ev: &Evaluator, cfg: &Cfg, cancel: &Cancel, artifact: Option<SearchArtifact>) -> Out {
    let mut lines = vec![];
    let mut progress = vec![];
    let mut warnings = 0;
    let r = guard(|| {
        verif::analyze_sync(st.clone(), ev, cfg.seed, cfg.depth, cancel, artifact, cfg.workers, &mut |e| match e {
            StatusEvent::BestMove { line, evaluation } => lines.push((line, evaluation)),
            StatusEvent::Progress { depth, nodes_searched, transposition_saturation } => progress.push((depth, nodes_searched, transposition_saturation)),
            StatusEvent::Warning { .. } => warnings += 1,
            // event kinds added to the engine later are none of the harness's business (a wildcard keeps it building)
            #[allow(unreachable_patterns)]
            _ => {}
        })
    });
    match r {
        Ok(a) => Out { lines, progress, warnings, artifact: Some(a), panic: None },
        Err(e) => Out { lines, progress, warnings, artifact: None, panic: Some(e) },
    }
}

pub fn lan_line(line: &[Move]) -> String {
    line.iter().map(|m| Pos::lan(&to_omove(m))).collect::<Vec<_>>().join(" ")
}

/// C03's oracle: every move of the line is legal (with all attributes) in the position reached so far
pub fn check_line(root: &Pos, line: &[Move]) -> Result<(), String> {
    if line.is_empty() {
        return Err("empty line".into());
    }
    let mut p = root.clone();
    for (i, m) in line.iter().enumerate() {
        let om = to_omove(m);
        let legal = p.legal_moves();
        if !legal.contains(&om) {
            let near = legal.iter().any(|l| l.from == om.from && l.to == om.to && l.promo == om.promo);
            return Err(format!(
                "move {} of the line ({}) is {} in {}",
                i + 1,
                omove_str(&om),
                if near { "legal by coordinates but carries wrong attributes" } else { "not legal" },
                p.fen()
            ));
        }
        p = p.make(&om);
    }
    Ok(())
}
