//! Seeded workload generators. Everything goes through `oracle::rules`; weechess code is
//! never used to decide what is generated.

use crate::oracle::rules::*;
use rand::{seq::SliceRandom, Rng};
use rand_chacha::ChaCha8Rng;

pub type R = ChaCha8Rng;

pub const CORPUS_TEXT: &str = include_str!("../../corpus/fens.txt");

pub fn corpus_lint() -> Vec<String> {
    let mut bad = vec![];
    for line in CORPUS_TEXT.lines() {
        let line = line.split('#').next().unwrap().trim();
        if line.is_empty() {
            continue;
        }
        match Pos::from_fen(line) {
            None => bad.push(format!("unreadable: {}", line)),
            Some(p) => {
                if !p.is_legal_position() {
                    bad.push(format!("illegal: {}", line))
                } else if p.fen() != line {
                    bad.push(format!("non-canonical: {} -> {}", line, p.fen()))
                }
            }
        }
    }
    bad
}

/// Hand-written adversarial positions (validated against the quantifier's legality conditions)
pub fn corpus() -> Vec<Pos> {
    let mut v = vec![];
    for line in CORPUS_TEXT.lines() {
        let line = line.split('#').next().unwrap().trim();
        if line.is_empty() {
            continue;
        }
        let p = Pos::from_fen(line).unwrap_or_else(|| panic!("corpus FEN unreadable: {}", line));
        assert!(p.is_legal_position(), "corpus FEN not a legal position: {}", line);
        v.push(p);
    }
    v
}

pub fn move_weight(m: &OMove) -> usize {
    1 + if m.capture.is_some() { 2 } else { 0 }
        + if m.promo.is_some() { 6 } else { 0 }
        + if m.castle.is_some() { 8 } else { 0 }
        + if m.ep { 12 } else { 0 }
        + if m.double { 1 } else { 0 }
        + if m.piece == Kind::P { 1 } else { 0 }
}

pub fn pick_move(rng: &mut R, p: &Pos, legal: &[OMove]) -> OMove {
    // extra weight for checks every now and then (costs a make per move, so only sometimes)
    let check_bias = rng.gen_bool(0.3);
    let w: Vec<usize> = legal
        .iter()
        .map(|m| {
            let mut w = move_weight(m);
            if check_bias {
                let c = p.make(m);
                if c.in_check(c.wtm) {
                    w += 4;
                }
            }
            w
        })
        .collect();
    let tot: usize = w.iter().sum();
    let mut r = rng.gen_range(0..tot);
    for (i, x) in w.iter().enumerate() {
        if r < *x {
            return legal[i];
        }
        r -= x;
    }
    legal[legal.len() - 1]
}

/// A random game: the sequence of (position before the move, move). The last position reached
/// is returned separately (it may be terminal).
pub fn play(rng: &mut R, start: &Pos, max_plies: usize) -> (Vec<(Pos, OMove)>, Pos) {
    let mut pos = start.clone();
    let mut out = Vec::with_capacity(max_plies);
    for _ in 0..max_plies {
        let legal = pos.legal_moves();
        if legal.is_empty() {
            break;
        }
        let m = pick_move(rng, &pos, &legal);
        let next = pos.make(&m);
        out.push((pos, m));
        pos = next;
    }
    (out, pos)
}

/// Random legal position (by the quantifier's conditions), 2..=32 men.
pub fn sample(rng: &mut R) -> Pos {
    loop {
        if let Some(p) = try_sample(rng) {
            return p;
        }
    }
}

fn try_sample(rng: &mut R) -> Option<Pos> {
    let mut b = [0i8; 64];
    let home_template = rng.gen_bool(0.35);
    if home_template {
        // kings (and some rooks) at home so that castling rights can exist
        if rng.gen_bool(0.85) {
            b[4] = 6;
        }
        if rng.gen_bool(0.85) {
            b[60] = -6;
        }
        for (s, v) in [(0usize, 4i8), (7, 4), (56, -4), (63, -4)] {
            if rng.gen_bool(0.7) {
                b[s] = v;
            }
        }
    }
    for k in [6i8, -6] {
        if !b.contains(&k) {
            loop {
                let s = rng.gen_range(0..64);
                if b[s] == 0 {
                    b[s] = k;
                    break;
                }
            }
        }
    }
    let extra = match rng.gen_range(0..10) {
        0..=2 => rng.gen_range(0..4),
        3..=6 => rng.gen_range(2..14),
        _ => rng.gen_range(8..29),
    };
    let mut counts = [1usize, 1usize]; // per colour incl. king
    let mut pawns = [0usize, 0usize];
    for _ in 0..extra {
        let white = rng.gen_bool(0.5);
        let ci = if white { 0 } else { 1 };
        if counts[ci] >= 16 {
            continue;
        }
        let kind: i8 = *[1, 1, 1, 1, 2, 2, 3, 3, 4, 4, 5].choose(rng).unwrap();
        if kind == 1 && pawns[ci] >= 8 {
            continue;
        }
        let s = rng.gen_range(0..64usize);
        if b[s] != 0 {
            continue;
        }
        if kind == 1 && (s < 8 || s >= 56) {
            continue;
        }
        b[s] = if white { kind } else { -kind };
        counts[ci] += 1;
        if kind == 1 {
            pawns[ci] += 1;
        }
    }
    let wtm = rng.gen_bool(0.5);
    let mut p = Pos { b, wtm, castle: 0, ep: None, half: rng.gen_range(0..60), full: rng.gen_range(1..90) };
    if p.in_check(!wtm) {
        return None;
    }
    // kings adjacent is covered by the check test (a king attacks its neighbours)
    for (bit, ksq, rsq, k, r) in [(WK, 4usize, 7usize, 6i8, 4i8), (WQ, 4, 0, 6, 4), (BK, 60, 63, -6, -4), (BQ, 60, 56, -6, -4)] {
        if p.b[ksq] == k && p.b[rsq] == r && rng.gen_bool(0.6) {
            p.castle |= bit;
        }
    }
    // en passant: a pawn of the side that just moved on its fourth rank with both squares behind it empty
    let (pawn_r, ep_r, from_r, pawn) = if wtm { (4, 5, 6, -1i8) } else { (3, 2, 1, 1i8) };
    let mut cands = vec![];
    for f in 0..8 {
        if p.b[at(f, pawn_r).unwrap() as usize] == pawn
            && p.b[at(f, ep_r).unwrap() as usize] == 0
            && p.b[at(f, from_r).unwrap() as usize] == 0
        {
            cands.push(at(f, ep_r).unwrap());
        }
    }
    if !cands.is_empty() && rng.gen_bool(0.6) {
        // prefer targets that can actually be captured
        let capturable: Vec<u8> = cands
            .iter()
            .copied()
            .filter(|&e| {
                let mut q = p.clone();
                q.ep = Some(e);
                q.ep_pseudo()
            })
            .collect();
        let e = if !capturable.is_empty() && rng.gen_bool(0.8) { *capturable.choose(rng).unwrap() } else { *cands.choose(rng).unwrap() };
        p.ep = Some(e);
    }
    if !p.is_legal_position() {
        return None;
    }
    Some(p)
}

/// Castling family: kings and rooks at home, every rights subset consistent with the placement,
/// one enemy piece of every kind on every square, optional blocker. Exhaustive; ~40k positions.
pub fn castling_family() -> Vec<Pos> {
    let mut out = vec![];
    for wtm in [true, false] {
        for enemy_kind in [1i8, 2, 3, 4, 5] {
            for esq in 0..64usize {
                for blocker in [None, Some(1usize), Some(2), Some(3), Some(5), Some(6)] {
                    let mut b = [0i8; 64];
                    b[4] = 6;
                    b[60] = -6;
                    b[0] = 4;
                    b[7] = 4;
                    b[56] = -4;
                    b[63] = -4;
                    if b[esq] != 0 {
                        continue;
                    }
                    if enemy_kind == 1 && (esq < 8 || esq >= 56) {
                        continue;
                    }
                    // enemy of the side to move
                    b[esq] = if wtm { -enemy_kind } else { enemy_kind };
                    if let Some(bf) = blocker {
                        let s = if wtm { bf } else { 56 + bf };
                        if b[s] != 0 {
                            continue;
                        }
                        b[s] = if wtm { 2 } else { -2 };
                    }
                    for castle in [WK | WQ | BK | BQ, WK | BK, WQ | BQ, 0] {
                        let p = Pos { b, wtm, castle, ep: None, half: 0, full: 1 };
                        if p.is_legal_position() {
                            out.push(p);
                        }
                    }
                }
            }
        }
    }
    out
}

/// En-passant family: capturing pawn(s), double-stepped pawn, both kings on many squares, one enemy
/// slider on every square. Covers the pinned-capturer, discovered-check-along-the-rank and
/// capture-the-checker cases.
pub fn ep_family(rng: &mut R, n: usize) -> Vec<Pos> {
    let mut out = vec![];
    while out.len() < n {
        let wtm = rng.gen_bool(0.5);
        let f = rng.gen_range(0..8i32);
        let (pawn_r, ep_r, me, you) = if wtm { (4, 5, 1i8, -1i8) } else { (3, 2, -1i8, 1i8) };
        let mut b = [0i8; 64];
        b[at(f, pawn_r).unwrap() as usize] = you;
        let mut any = false;
        for df in [-1, 1] {
            if let Some(s) = at(f + df, pawn_r) {
                if rng.gen_bool(0.7) {
                    b[s as usize] = me;
                    any = true;
                }
            }
        }
        if !any {
            continue;
        }
        let place = |b: &mut [i8; 64], v: i8, rng: &mut R| loop {
            let s = rng.gen_range(0..64usize);
            if b[s] == 0 && !(v.abs() == 1 && (s < 8 || s >= 56)) {
                b[s] = v;
                break;
            }
        };
        // own king often on the pawn's rank or on a diagonal through the capturer
        let kr = if rng.gen_bool(0.5) { pawn_r } else { rng.gen_range(0..8) };
        let kf = rng.gen_range(0..8);
        let ks = at(kf, kr).unwrap() as usize;
        if b[ks] != 0 {
            continue;
        }
        b[ks] = 6 * me;
        place(&mut b, -6 * me, rng);
        for _ in 0..rng.gen_range(1..4) {
            let kind = *[3i8, 4, 5, 5, 4, 2].choose(rng).unwrap();
            place(&mut b, kind * you, rng);
        }
        if rng.gen_bool(0.3) {
            place(&mut b, *[2i8, 3, 4].choose(rng).unwrap() * me, rng);
        }
        let p = Pos { b, wtm, castle: 0, ep: Some(at(f, ep_r).unwrap()), half: 0, full: 10 };
        if p.is_legal_position() {
            out.push(p);
        }
    }
    out
}

pub fn shard_rng(seed: u64, shard: usize, stream: u64) -> R {
    use rand::SeedableRng;
    R::seed_from_u64(seed.wrapping_mul(0x9E3779B97F4A7C15) ^ ((shard as u64) << 32) ^ stream.wrapping_mul(0xD1B54A32D192ED03))
}

/// number of nodes of the legal-captures-only tree below `p`, counted up to `cap`
pub fn capture_tree(p: &Pos, cap: &mut i64) {
    *cap -= 1;
    if *cap < 0 {
        return;
    }
    for m in p.legal_moves() {
        if m.capture.is_some() {
            capture_tree(&p.make(&m), cap);
            if *cap < 0 {
                return;
            }
        }
    }
}

/// true when the captures-only tree below `p` has at most `limit` nodes
pub fn tame(p: &Pos, limit: i64) -> bool {
    let mut cap = limit;
    capture_tree(p, &mut cap);
    cap >= 0
}

/// at most 1 queen, 2 rooks, 2 bishops, 2 knights per side plus `extra` promoted pieces
pub fn realistic_material(p: &Pos, extra: usize) -> bool {
    for sign in [1i8, -1] {
        let mut over = 0usize;
        for (k, base) in [(5i8, 1usize), (4, 2), (3, 2), (2, 2)] {
            let n = p.count(sign * k);
            if n > base {
                over += n - base;
            }
        }
        if over > extra || over + p.count(sign) > 8 {
            return false;
        }
    }
    true
}

fn material_stm(p: &Pos) -> i32 {
    let mut v = 0i32;
    for x in p.b {
        let w = match x.abs() {
            1 => 100,
            2 => 300,
            3 => 350,
            4 => 500,
            5 => 900,
            _ => 0,
        };
        v += if x > 0 { w } else { -w };
    }
    if p.wtm {
        v
    } else {
        -v
    }
}

fn q_emul(p: &Pos, mut alpha: i32, beta: i32, budget: &mut i64) -> i32 {
    *budget -= 1;
    if *budget < 0 {
        return 0;
    }
    let ms = p.legal_moves();
    if ms.is_empty() {
        return if p.in_check(p.wtm) { -100_000 } else { 0 };
    }
    let mut caps: Vec<&OMove> = ms.iter().filter(|m| m.capture.is_some()).collect();
    let stand = material_stm(p);
    if caps.is_empty() {
        return stand;
    }
    if stand >= beta {
        return beta;
    }
    alpha = alpha.max(stand);
    let val = |k: Kind| match k {
        Kind::P => 1,
        Kind::N => 3,
        Kind::B => 4,
        Kind::R => 5,
        Kind::Q => 9,
        Kind::K => 100,
    };
    caps.sort_by_key(|m| -(val(m.capture.unwrap()) - val(m.piece)));
    for m in caps {
        let v = -q_emul(&p.make(m), -beta, -alpha, budget);
        if *budget < 0 {
            return 0;
        }
        if v >= beta {
            return beta;
        }
        alpha = alpha.max(v);
    }
    alpha
}

/// Cost predictor for the engine's unbounded capture search (known finding F11): a captures-only
/// alpha-beta with material stand-pat, run with a full window below every successor of `p`.
/// Returns the node count, saturating at `limit`.
pub fn q_cost(p: &Pos, limit: i64) -> i64 {
    let mut budget = limit;
    for m in p.legal_moves() {
        q_emul(&p.make(&m), -1_000_000, 1_000_000, &mut budget);
        if budget < 0 {
            return limit;
        }
    }
    limit - budget
}

/// En passant as an answer to check: the pawn that just double-stepped attacks the king of the side
/// to move, a capturing pawn stands next to it, and the king is crowded by own men and attacked
/// squares so that the en-passant capture is often one of very few (or the only) legal moves.
pub fn ep_check_family(rng: &mut R, n: usize) -> Vec<Pos> {
    let mut out = vec![];
    let mut tries = 0;
    while out.len() < n && tries < n * 400 {
        tries += 1;
        let wtm = rng.gen_bool(0.5);
        let (pawn_r, ep_r, king_r, me, you) = if wtm { (4, 5, 3, 1i8, -1i8) } else { (3, 2, 4, -1i8, 1i8) };
        let f = rng.gen_range(0..8i32);
        let kf = if rng.gen_bool(0.5) { f - 1 } else { f + 1 };
        let cf = if rng.gen_bool(0.5) { f - 1 } else { f + 1 };
        let (Some(ks), Some(cs)) = (at(kf, king_r), at(cf, pawn_r)) else { continue };
        let mut b = [0i8; 64];
        b[at(f, pawn_r).unwrap() as usize] = you;
        b[ks as usize] = 6 * me;
        b[cs as usize] = me;
        // crowd the king
        for (df, dr) in KING {
            if let Some(s) = at(kf + df, king_r + dr) {
                if b[s as usize] == 0 && rng.gen_bool(0.45) {
                    let k = *[1i8, 1, 2, 3, 4].choose(rng).unwrap();
                    if k == 1 && (s < 8 || s >= 56) {
                        continue;
                    }
                    b[s as usize] = k * me;
                }
            }
        }
        let mut place = |v: i8, rng: &mut R, b: &mut [i8; 64]| {
            for _ in 0..20 {
                let s = rng.gen_range(0..64usize);
                if b[s] == 0 && !(v.abs() == 1 && (s < 8 || s >= 56)) {
                    b[s] = v;
                    return;
                }
            }
        };
        place(-6 * me, rng, &mut b);
        for _ in 0..rng.gen_range(1..5) {
            let k = *[5i8, 4, 4, 3, 2, 1].choose(rng).unwrap();
            place(k * you, rng, &mut b);
        }
        let p = Pos { b, wtm, castle: 0, ep: at(f, ep_r), half: 0, full: 20 };
        if p.is_legal_position() && p.ep_legal() {
            out.push(p);
        }
    }
    out
}

/// Castling that gives check (sometimes mate): kings and rooks at home, the enemy king on the file the
/// castled rook lands on (f for O-O, d for O-O-O) with that file open, and random men around it.
pub fn castle_check_family(rng: &mut R, n: usize) -> Vec<Pos> {
    let mut out = vec![];
    let mut tries = 0;
    while out.len() < n && tries < n * 300 {
        tries += 1;
        let wtm = rng.gen_bool(0.5);
        let me: i8 = if wtm { 1 } else { -1 };
        let home = if wtm { 0usize } else { 56 };
        let kingside = rng.gen_bool(0.5);
        let mut b = [0i8; 64];
        b[home + 4] = 6 * me;
        b[home + if kingside { 7 } else { 0 }] = 4 * me;
        let file = if kingside { 5 } else { 3 };
        // enemy king somewhere up the file
        let r = rng.gen_range(2..8);
        let ek = if wtm { r * 8 + file } else { (7 - r) * 8 + file };
        if b[ek] != 0 {
            continue;
        }
        b[ek] = -6 * me;
        // box it in with its own men and cover squares with a few of ours
        for (df, dr) in KING {
            if let Some(s) = at(file as i32 + df, (ek / 8) as i32 + dr) {
                if df != 0 && b[s as usize] == 0 && rng.gen_bool(0.5) {
                    let k = *[1i8, 2, 3, 4].choose(rng).unwrap();
                    if k == 1 && (s < 8 || s >= 56) {
                        continue;
                    }
                    b[s as usize] = -k * me;
                }
            }
        }
        for _ in 0..rng.gen_range(0..4) {
            let s = rng.gen_range(0..64usize);
            let k = *[5i8, 4, 3, 2].choose(rng).unwrap();
            if b[s] == 0 && s % 8 != file {
                b[s] = k * me;
            }
        }
        let bit = match (wtm, kingside) {
            (true, true) => WK,
            (true, false) => WQ,
            (false, true) => BK,
            (false, false) => BQ,
        };
        let p = Pos { b, wtm, castle: bit, ep: None, half: 0, full: 1 };
        if !p.is_legal_position() {
            continue;
        }
        if let Some(m) = p.legal_moves().iter().find(|m| m.castle.is_some()) {
            let c = p.make(m);
            if c.in_check(c.wtm) {
                out.push(p);
            }
        }
    }
    out
}

/// A stalemate-like crowd in which the only pseudo-legal move is an en-passant capture that is illegal
/// because both pawns leave the king's rank (king, pawns and an enemy rook/queen on one rank): real
/// stalemates when nothing else can move.
pub fn ep_rank_pin_family(rng: &mut R, n: usize) -> Vec<Pos> {
    let mut out = vec![];
    let mut tries = 0;
    while out.len() < n && tries < n * 2000 {
        tries += 1;
        let wtm = rng.gen_bool(0.5);
        let (pawn_r, ep_r, me, you) = if wtm { (4, 5, 1i8, -1i8) } else { (3, 2, -1i8, 1i8) };
        // rank layout: K ... [p P | P p] ... r  (either orientation, either order of the two pawns)
        let mut files: Vec<i32> = (0..8).collect();
        files.shuffle(rng);
        let kf = rng.gen_range(0..3);
        let gap = rng.gen_range(1..3);
        let a = kf + gap;
        let bfile = a + 1;
        let rf = rng.gen_range(bfile + 1..8.max(bfile + 2)).min(7);
        if rf <= bfile {
            continue;
        }
        let flip = rng.gen_bool(0.5);
        let fx = |f: i32| if flip { 7 - f } else { f };
        let mut b = [0i8; 64];
        b[at(fx(kf), pawn_r).unwrap() as usize] = 6 * me;
        let (mine_f, yours_f) = if rng.gen_bool(0.5) { (a, bfile) } else { (bfile, a) };
        b[at(fx(mine_f), pawn_r).unwrap() as usize] = me;
        b[at(fx(yours_f), pawn_r).unwrap() as usize] = you;
        b[at(fx(rf), pawn_r).unwrap() as usize] = if rng.gen_bool(0.5) { 4 * you } else { 5 * you };
        // my pawn must be blocked from pushing; the king boxed in by enemy control
        if let Some(front) = at(fx(mine_f), ep_r) {
            if rng.gen_bool(0.8) {
                b[front as usize] = *[1i8, 2, 3].choose(rng).unwrap() * you;
            }
        }
        let mut place = |v: i8, rng: &mut R, b: &mut [i8; 64]| {
            for _ in 0..20 {
                let s = rng.gen_range(0..64usize);
                if b[s] == 0 && !(v.abs() == 1 && (s < 8 || s >= 56)) {
                    b[s] = v;
                    return;
                }
            }
        };
        place(-6 * me, rng, &mut b);
        for _ in 0..rng.gen_range(1..4) {
            let k = *[5i8, 4, 3, 2].choose(rng).unwrap();
            place(k * you, rng, &mut b);
        }
        let p = Pos { b, wtm, castle: 0, ep: at(fx(yours_f), ep_r), half: 0, full: 30 };
        if p.is_legal_position() && p.ep_pseudo() && !p.ep_legal() {
            out.push(p);
        }
    }
    out
}

/// Checkmates and stalemates with very little material (kings, minor pieces, a pawn or two): the king
/// in or near a corner, kept only when the oracle finds no legal move.
pub fn sparse_terminal(rng: &mut R) -> Option<Pos> {
    let mut b = [0i8; 64];
    let me: i8 = if rng.gen_bool(0.5) { 1 } else { -1 };
    let corner = *[0usize, 7, 56, 63].choose(rng).unwrap();
    let k = if rng.gen_bool(0.7) {
        corner
    } else {
        let (f, r) = ((corner % 8) as i32, (corner / 8) as i32);
        at((f + rng.gen_range(-1..=1)).clamp(0, 7), (r + rng.gen_range(-1..=1)).clamp(0, 7)).unwrap() as usize
    };
    b[k] = 6 * me;
    let near = |rng: &mut R, k: usize, d: i32| -> usize {
        let (f, r) = ((k % 8) as i32, (k / 8) as i32);
        at((f + rng.gen_range(-d..=d)).clamp(0, 7), (r + rng.gen_range(-d..=d)).clamp(0, 7)).unwrap() as usize
    };
    let ek = near(rng, k, 2);
    if b[ek] != 0 {
        return None;
    }
    b[ek] = -6 * me;
    // own side: zero to two minor pieces / pawns next to the king; enemy: one to three minors / pawns nearby
    for _ in 0..rng.gen_range(0..3) {
        let s = near(rng, k, 1);
        let v = *[2i8, 3, 1].choose(rng).unwrap();
        if b[s] == 0 && !(v == 1 && (s < 8 || s >= 56)) {
            b[s] = v * me;
        }
    }
    for _ in 0..rng.gen_range(1..4) {
        let s = near(rng, k, 3);
        let v = *[2i8, 3, 3, 2, 1].choose(rng).unwrap();
        if b[s] == 0 && !(v == 1 && (s < 8 || s >= 56)) {
            b[s] = -v * me;
        }
    }
    let p = Pos { b, wtm: me > 0, castle: 0, ep: None, half: 0, full: 1 };
    if p.is_legal_position() && p.legal_moves().is_empty() {
        Some(p)
    } else {
        None
    }
}

/// A pawn one step from promotion with the enemy king a knight's jump (or a line) away from the
/// promotion square: under-promotions that give check.
pub fn promotion_check_family(rng: &mut R, n: usize) -> Vec<Pos> {
    let mut out = vec![];
    let mut tries = 0;
    while out.len() < n && tries < n * 200 {
        tries += 1;
        let wtm = rng.gen_bool(0.5);
        let me: i8 = if wtm { 1 } else { -1 };
        let f = rng.gen_range(0..8i32);
        let (from_r, to_r) = if wtm { (6, 7) } else { (1, 0) };
        let mut b = [0i8; 64];
        b[at(f, from_r).unwrap() as usize] = me;
        // the promotion square is empty, or a capture square next to it holds an enemy piece
        let capture = rng.gen_bool(0.3);
        let tf = if capture { f + if rng.gen_bool(0.5) { 1 } else { -1 } } else { f };
        let Some(t) = at(tf, to_r) else { continue };
        if capture {
            b[t as usize] = -*[2i8, 3, 4].choose(rng).unwrap() * me;
        }
        let ek = if rng.gen_bool(0.7) {
            let (df, dr) = *KNIGHT.choose(rng).unwrap();
            match at(tf + df, to_r + dr) {
                Some(s) => s as usize,
                None => continue,
            }
        } else {
            rng.gen_range(0..64usize)
        };
        if b[ek] != 0 {
            continue;
        }
        b[ek] = -6 * me;
        for _ in 0..20 {
            let s = rng.gen_range(0..64usize);
            if b[s] == 0 {
                b[s] = 6 * me;
                break;
            }
        }
        for _ in 0..rng.gen_range(0..3) {
            let s = rng.gen_range(8..56usize);
            if b[s] == 0 {
                b[s] = *[1i8, 2, 3, 4, -1, -2, -3].choose(rng).unwrap();
            }
        }
        let p = Pos { b, wtm, castle: 0, ep: None, half: 0, full: 40 };
        if p.count(6) == 1 && p.count(-6) == 1 && p.is_legal_position() && p.legal_moves().iter().any(|m| m.promo.is_some()) {
            out.push(p);
        }
    }
    out
}
