//! C06 — mate claims are true (soundness) and shallow forced mates are found (completeness).

use crate::conv::*;
use crate::gen;
use crate::mon::c05;
use crate::oracle::rules::*;
use crate::oracle::solver::{PKey, Solver};
use crate::oracle::tb::{Tablebases, Val};
use crate::oracle::tb4::Tablebases4;
use crate::report::{mix, Ctx, Report};
use crate::scenario::{Scenario, Step, StepResult};
use crate::srch;
use rand::{seq::SliceRandom, Rng};
use serde_json::json;
use std::collections::HashSet;
use weechess_engine::eval::{Evaluation, Evaluator};

pub fn build_tb(rep: &mut Report) -> Option<Tablebases> {
    let tb = Tablebases::build(&[Kind::Q, Kind::R, Kind::B, Kind::N, Kind::P]);
    // published maxima: KQK mate in 10 moves, KRK in 16, KPK in 28
    let got = (tb.max_win(Kind::Q), tb.max_win(Kind::R), tb.max_win(Kind::P), tb.max_win(Kind::B), tb.max_win(Kind::N));
    if got != (19, 31, 55, 0, 0) {
        rep.inconclusive(&format!("tablebase self-check failed: longest wins {:?} plies, expected (19, 31, 55, 0, 0)", got));
        return None;
    }
    rep.count("tablebase_selfcheck_ok", 1);
    Some(tb)
}

/// random legal 3-man position (either colour owns the extra man)
pub fn random_three_man(rng: &mut gen::R, kinds: &[Kind]) -> Pos {
    loop {
        let mut b = [0i8; 64];
        let (wk, bk, x) = (rng.gen_range(0..64usize), rng.gen_range(0..64usize), rng.gen_range(0..64usize));
        if wk == bk || wk == x || bk == x {
            continue;
        }
        let kind = *kinds.choose(rng).unwrap();
        if kind == Kind::P && (x < 8 || x >= 56) {
            continue;
        }
        b[wk] = 6;
        b[bk] = -6;
        b[x] = kind as i8;
        let p = Pos { b, wtm: rng.gen_bool(0.5), castle: 0, ep: None, half: 0, full: 1 };
        if !p.is_legal_position() {
            continue;
        }
        return if rng.gen_bool(0.5) { p.mirror() } else { p };
    }
}

fn fresh(rng: &mut gen::R, fen: &str, depth: usize, workers: usize) -> Scenario {
    // geometry that stays far below saturation for the searches run here
    let mut s = Step::new(fen, depth, workers, rng.gen());
    if workers >= 2 && rng.gen_bool(0.3) {
        s.delay = Some((rng.gen(), 2048));
    }
    Scenario { tables: 8, buckets: 1024, hasher_seed: rng.gen(), steps: vec![s] }
}

fn run_one(sc: &Scenario, ev: &Evaluator) -> Option<StepResult> {
    let mut out = None;
    sc.run(ev, |_, _, res| {
        // move the result out (Out holds no artifact any more)
        out = Some(StepResult {
            out: srch::Out { lines: res.out.lines.clone(), progress: res.out.progress.clone(), warnings: res.out.warnings, artifact: None, panic: res.out.panic.clone() },
            nodes: res.nodes,
            qnodes: res.qnodes,
            max_thread_qnodes_after_cancel: res.max_thread_qnodes_after_cancel,
            finds: res.finds,
            inserts: res.inserts,
            cancel_seen: res.cancel_seen,
            nodes_at_cancel: res.nodes_at_cancel,
            max_thread_nodes_after_cancel: res.max_thread_nodes_after_cancel,
            threads: res.threads,
            delays: res.delays,
            signature: res.signature,
            entries: res.entries,
        });
        true
    });
    out
}

/// does the defender lose (at any distance) after `first`? Some(true/false) when decidable
fn keeps_win(p: &Pos, first: &OMove, tb: &Tablebases) -> Option<bool> {
    let c = p.make(first);
    match tb.probe(&c) {
        Some(v) => Some(v.is_loss()),
        None => None,
    }
}

pub fn judge_tb(p: &Pos, sc: &Scenario, res: &StepResult, tb: &Tablebases, must_find: bool, rep: &mut Report) -> bool {
    let step = &sc.steps[0];
    let replay = json!({"scenario": sc.to_json(), "must_find": must_find});
    let sig = |k: &str| format!("{}|{}|d{}|w{}", k, step.fen, step.depth.unwrap_or(0), step.workers.unwrap_or(0));
    rep.eval(1);
    rep.count("searches", 1);
    rep.count(&format!("workers_{}", step.workers.unwrap_or(0)), 1);
    if let Some(e) = &res.out.panic {
        rep.count("panic_left_to_C04", 1);
        let _ = e;
        return true;
    }
    let val = tb.probe(p).expect("3-man position");
    let legal = p.legal_moves();
    // soundness: every report
    for (line, e) in res.out.lines.iter() {
        if *e >= Evaluation::POS_INF {
            rep.count("mate_claims", 1);
            if !val.is_win() {
                rep.violation("false-mate-claim", &sig("false-mate-claim"), &format!("search claims a forced mate ({:?}, line {}) but the tablebase value of {} is {:?}", e, srch::lan_line(line), step.fen, val), replay);
                return false;
            }
            let om = to_omove(&line[0]);
            if !legal.contains(&om) {
                rep.count("illegal_first_move_left_to_C03", 1);
                return true;
            }
            if keeps_win(p, &om, tb) == Some(false) {
                rep.violation("mate-claim-move-loses-win", &sig("mate-claim-move-loses-win"), &format!("mate claimed ({:?}) but the reported first move {} gives the win away in {} (tablebase {:?})", e, Pos::lan(&om), step.fen, tb.probe(&p.make(&om))), replay);
                return false;
            }
            rep.count("mate_claims_confirmed_by_tablebase", 1);
        }
    }
    if must_find {
        rep.count("completeness_cases", 1);
        match res.out.lines.last() {
            None => {
                rep.count("no_report_left_to_C03", 1);
            }
            Some((line, e)) => {
                if *e < Evaluation::POS_INF {
                    rep.violation("mate-missed", &sig("mate-missed"), &format!("{} has a forced mate in {:?} plies but a depth-{} search reports {:?} (line {})", step.fen, val, step.depth.unwrap_or(0), e, srch::lan_line(line)), replay);
                    return false;
                }
            }
        }
    }
    if val.is_win() {
        rep.distinct(mix(p.key_hash(), step.depth.unwrap_or(0) as u64));
    }
    if res.threads >= 2 {
        rep.aux_distinct("table_event_signatures", res.signature);
    }
    true
}

/// positions beyond the tablebases with a solver-proved mate in <= 5 plies
fn sample_solver_mate(rng: &mut gen::R, forbidden: &HashSet<PKey>) -> Option<(Pos, usize)> {
    // near-terminal material: a predecessor of a sampled checkmate
    let t = c05::sample_terminal(rng)?;
    if !t.in_check(t.wtm) {
        return None;
    }
    let mover_white = !t.wtm;
    let men: Vec<usize> = (0..64).filter(|&s| t.b[s] != 0 && (t.b[s] > 0) == mover_white && t.b[s].abs() != 1).collect();
    let s = *men.choose(rng)?;
    let from = rng.gen_range(0..64usize);
    if t.b[from] != 0 {
        return None;
    }
    let mut q = t.clone();
    q.b[from] = q.b[s];
    q.b[s] = 0;
    q.wtm = mover_white;
    // one more retraction for the defender every now and then (mate in 3 plies)
    if !q.is_legal_position() || q.men() <= 3 || q.imbalance() >= 60.0 {
        return None;
    }
    let max = if q.men() > 8 { 3 } else { 5 };
    let mut sv = Solver::new(forbidden);
    sv.node_limit = 300_000;
    let n = sv.mate_distance(&q, max)?;
    if sv.aborted {
        return None;
    }
    Some((q, n))
}

/// A side that is itself in check and mates by capturing the checker or interposing, preferably with an enemy pawn
/// diagonally behind its king (one that has passed the king and does not attack it): check-evasion shortcuts that
/// count checkers or restrict the answers to king moves are wrong exactly here.
fn sample_mate_while_in_check(rng: &mut gen::R, forbidden: &HashSet<PKey>) -> Option<(Pos, usize)> {
    let (q, n) = sample_solver_mate(rng, forbidden)?;
    if !q.in_check(q.wtm) {
        return None;
    }
    if rng.gen_bool(0.7) {
        let k = (0..64usize).find(|&s| q.b[s] == if q.wtm { 6 } else { -6 })?;
        let (kr, kf) = (k / 8, k % 8);
        let pr = if q.wtm { kr.checked_sub(1)? } else { kr + 1 };
        if pr >= 1 && pr <= 6 {
            let mut files = vec![];
            if kf > 0 {
                files.push(kf - 1);
            }
            if kf < 7 {
                files.push(kf + 1);
            }
            let f = *files.choose(rng)?;
            if q.b[pr * 8 + f] == 0 {
                let mut r = q.clone();
                r.b[pr * 8 + f] = if q.wtm { -1 } else { 1 };
                if r.is_legal_position() && r.in_check(r.wtm) {
                    let mut sv = Solver::new(forbidden);
                    sv.node_limit = 300_000;
                    if let Some(m) = sv.mate_distance(&r, if r.men() > 8 { 3 } else { 5 }) {
                        if !sv.aborted {
                            return Some((r, m));
                        }
                    }
                }
            }
        }
    }
    Some((q, n))
}

pub fn judge_solver(p: &Pos, n: usize, sc: &Scenario, res: &StepResult, rep: &mut Report) -> bool {
    let step = &sc.steps[0];
    let replay = json!({"scenario": sc.to_json(), "solver_mate_in": n});
    let sig = |k: &str| format!("{}|{}|d{}|w{}", k, step.fen, step.depth.unwrap_or(0), step.workers.unwrap_or(0));
    rep.eval(1);
    rep.count("searches", 1);
    rep.count("solver_completeness_cases", 1);
    if res.out.panic.is_some() {
        rep.count("panic_left_to_C04", 1);
        return true;
    }
    let Some((line, e)) = res.out.lines.last() else {
        rep.count("no_report_left_to_C03", 1);
        return true;
    };
    if *e < Evaluation::POS_INF {
        rep.violation("mate-missed", &sig("mate-missed"), &format!("{} has a forced mate in {} plies (exhaustive solver) but a depth-{} search reports {:?} (line {})", step.fen, n, step.depth.unwrap_or(0), e, srch::lan_line(line)), replay);
        return false;
    }
    // the first move must keep a forced mate (any distance): confirmed up to 9 plies, else "unconfirmed"
    let om = to_omove(&line[0]);
    if !p.legal_moves().contains(&om) {
        rep.count("illegal_first_move_left_to_C03", 1);
        return true;
    }
    let empty = HashSet::new();
    let mut sv = Solver::new(&empty);
    sv.node_limit = 2_000_000;
    let c = p.make(&om);
    let mut kept = false;
    for bound in [n.saturating_sub(1), n + 1, n + 3] {
        if sv.lost(&c, bound) {
            kept = true;
            break;
        }
        if sv.aborted {
            break;
        }
    }
    if kept {
        rep.count("first_move_confirmed_by_solver", 1);
    } else {
        // a slower win beyond the solver's bound cannot be excluded: never a violation
        rep.count("first_move_unconfirmed_beyond_solver_bound", 1);
    }
    rep.distinct(mix(p.key_hash(), step.depth.unwrap_or(0) as u64 + 100));
    true
}

/// mate distance (plies) encoded in a winning terminal evaluation, when it is below 10
fn claimed_plies(e: Evaluation) -> Option<usize> {
    let v: i32 = e.into();
    let base: i32 = Evaluation::POS_INF.into();
    let bonus = (v - base) / 100;
    if v >= base && bonus >= 1 && bonus <= 10 && (v - base) % 100 == 0 {
        Some((10 - bonus) as usize)
    } else {
        None
    }
}

/// random legal position with the given men besides the kings, the weaker king often near an edge
fn random_material(rng: &mut gen::R, white: &[i8], black: &[i8]) -> Pos {
    loop {
        let mut b = [0i8; 64];
        let edge = |rng: &mut gen::R| -> usize {
            let e = rng.gen_range(0..8);
            match rng.gen_range(0..4) {
                0 => e,
                1 => 56 + e,
                2 => e * 8,
                _ => e * 8 + 7,
            }
        };
        let bk = if rng.gen_bool(0.5) { edge(rng) } else { rng.gen_range(0..64) };
        b[bk] = -6;
        let mut put = |v: i8, near: Option<usize>, rng: &mut gen::R, b: &mut [i8; 64]| {
            for _ in 0..50 {
                let s = match near {
                    Some(n) if rng.gen_bool(0.5) => {
                        let f = (n % 8) as i32 + rng.gen_range(-2..=2);
                        let r = (n / 8) as i32 + rng.gen_range(-2..=2);
                        match at(f, r) {
                            Some(s) => s as usize,
                            None => continue,
                        }
                    }
                    _ => rng.gen_range(0..64usize),
                };
                if b[s] == 0 && !(v.abs() == 1 && (s < 8 || s >= 56)) {
                    b[s] = v;
                    return;
                }
            }
        };
        put(6, Some(bk), rng, &mut b);
        for v in white {
            put(*v, Some(bk), rng, &mut b);
        }
        for v in black {
            put(-*v, None, rng, &mut b);
        }
        let p = Pos { b, wtm: rng.gen_bool(0.6), castle: 0, ep: None, half: 0, full: 1 };
        if p.men() == 2 + white.len() + black.len() && p.is_legal_position() && !p.legal_moves().is_empty() {
            return if rng.gen_bool(0.5) { p.mirror() } else { p };
        }
    }
}

/// Soundness beyond the tablebases: the claimed distance is encoded in the score, so an exhaustive
/// solver can refute a claim ("mate within k plies" must exist), and a first move is refuted when
/// the defender provably does not lose after it (stalemate, capture into a dead draw, or a mate
/// for the defender).
pub fn judge_claims_by_solver(p: &Pos, sc: &Scenario, res: &StepResult, tb3: &Tablebases, tb4: &Tablebases4, rep: &mut Report) -> bool {
    let step = &sc.steps[0];
    let replay = json!({"scenario": sc.to_json(), "four_man": true});
    let sig = |k: &str| format!("{}|{}|d{}|w{}", k, step.fen, step.depth.unwrap_or(0), step.workers.unwrap_or(0));
    rep.eval(1);
    rep.count("searches", 1);
    rep.count("four_man_soundness_searches", 1);
    if res.threads >= 2 {
        rep.aux_distinct("table_event_signatures", res.signature);
    }
    if res.out.panic.is_some() {
        rep.count("panic_left_to_C04", 1);
        return true;
    }
    let empty: HashSet<PKey> = HashSet::new();
    for (line, e) in res.out.lines.iter() {
        if *e < Evaluation::POS_INF {
            continue;
        }
        rep.count("mate_claims_beyond_tablebases", 1);
        let om = to_omove(&line[0]);
        if !p.legal_moves().contains(&om) {
            rep.count("illegal_first_move_left_to_C03", 1);
            return true;
        }
        let c = p.make(&om);
        // (a) the claim itself: exact where a 4-man table exists
        let exact = tb4.probe(p);
        if let Some(v) = exact {
            rep.count("claims_judged_by_four_man_tablebase", 1);
            if !v.is_win() {
                rep.violation("false-mate-claim", &sig("false-mate-claim"), &format!("search reports {:?} for {} with line {}, but the exact value of the position is {:?}", e, step.fen, srch::lan_line(line), v), replay);
                return false;
            }
            let after = tb4.probe(&c).or_else(|| tb3.probe(&c));
            if let Some(a) = after {
                if !a.is_loss() {
                    rep.violation("mate-claim-move-loses-win", &sig("mate-claim-move-loses-win"), &format!("mate claimed ({:?}) for {} but after the reported first move {} the exact value for the defender is {:?}", e, step.fen, Pos::lan(&om), a), replay);
                    return false;
                }
            }
            continue;
        }
        // no table: the exhaustive solver can confirm a claim but, since table entries keep the score of the
        // ply at which they were computed and can chain, a missing confirmation within a bound proves nothing
        let d = step.depth.unwrap_or(1);
        let bound = 2 * d + 3;
        let bound = if bound % 2 == 0 { bound + 1 } else { bound };
        let mut sv = Solver::new(&empty);
        sv.node_limit = 6_000_000;
        let ok = sv.wins(p, bound);
        rep.max("solver_nodes_for_one_claim", sv.nodes);
        if ok && !sv.aborted {
            rep.count("claims_confirmed_by_solver", 1);
        } else {
            rep.count("claims_unconfirmed_by_solver", 1);
        }
        let _ = claimed_plies(*e);
        // (b) the first move: refuted only by a proof that the defender does not lose
        let replies = c.legal_moves();
        let dead = |q: &Pos| q.men() == 2 || (q.men() == 3 && (q.count(2) + q.count(-2) + q.count(3) + q.count(-3)) == 1);
        let mut refuted: Option<String> = None;
        if replies.is_empty() && !c.in_check(c.wtm) {
            refuted = Some("stalemates the defender".into());
        } else if replies.iter().any(|m| dead(&c.make(m))) {
            refuted = Some("lets the defender capture into a dead draw".into());
        } else {
            let mut sv = Solver::new(&empty);
            sv.node_limit = 1_000_000;
            if sv.wins(&c, 5) && !sv.aborted {
                refuted = Some("lets the defender force mate".into());
            }
        }
        if let Some(why) = refuted {
            rep.violation("mate-claim-move-loses-win", &sig("mate-claim-move-loses-win"), &format!("mate claimed ({:?}) for {} but the reported first move {} {}", e, step.fen, Pos::lan(&om), why), replay);
            return false;
        }
    }
    // completeness where the exact distance is known
    if let Some(Val::Win(n)) = tb4.probe(p) {
        let d = step.depth.unwrap_or(0);
        if (n as usize) <= 5 && d >= n as usize {
            rep.count("four_man_completeness_cases", 1);
            if let Some((line, e)) = res.out.lines.last() {
                if *e < Evaluation::POS_INF {
                    rep.violation("mate-missed", &sig("mate-missed"), &format!("{} is a forced mate in {} plies (4-man tablebase) but a depth-{} search reports {:?} (line {})", step.fen, n, d, e, srch::lan_line(line)), replay);
                    return false;
                }
            }
        }
    }
    rep.distinct(mix(p.key_hash(), 4000 + step.depth.unwrap_or(0) as u64));
    true
}

pub fn run(ctx: &Ctx, rep: &mut Report) {
    let ev = Evaluator::default();
    let mut rng = gen::shard_rng(ctx.seed, ctx.shard, 6);
    let Some(tb) = build_tb(rep) else { return };
    // optional exact 4-man tables (built by ./check --setup into /verif/cache; absent = solver fallback)
    let tb4 = Tablebases4::load_cached();
    rep.count("four_man_tables_loaded", tb4.tables.len() as u64);
    if let Some(path) = &ctx.replay {
        let v: serde_json::Value = serde_json::from_slice(&std::fs::read(path).expect("replay file")).expect("replay json");
        let sc = Scenario::from_json(&v["scenario"]);
        let p = Pos::from_fen(&sc.steps[0].fen).unwrap();
        for _ in 0..10 {
            let Some(res) = run_one(&sc, &ev) else { break };
            let ok = if v.get("four_man").is_some() {
                judge_claims_by_solver(&p, &sc, &res, &tb, &tb4, rep)
            } else if let Some(n) = v.get("solver_mate_in").and_then(|n| n.as_u64()) {
                judge_solver(&p, n as usize, &sc, &res, rep)
            } else {
                judge_tb(&p, &sc, &res, &tb, v["must_find"].as_bool().unwrap_or(false), rep)
            };
            if !ok {
                break;
            }
        }
        return;
    }
    let workers = [1usize, 1, 2, 4, 8, 32];
    // completeness: tablebase wins within 5 plies, d in n..n+2
    let mut n = ctx.n(12_000, 600_000);
    let kinds = [Kind::Q, Kind::R, Kind::R, Kind::P, Kind::Q];
    while n > 0 && ctx.time_left() {
        let p = random_three_man(&mut rng, &kinds);
        let Some(Val::Win(d)) = tb.probe(&p) else { continue };
        if d > 5 {
            continue;
        }
        for dd in [d as usize, d as usize + 1, d as usize + 2] {
            let w = *workers.choose(&mut rng).unwrap();
            let sc = fresh(&mut rng, &p.fen(), dd, w);
            let Some(res) = run_one(&sc, &ev) else { continue };
            judge_tb(&p, &sc, &res, &tb, true, rep);
            n = n.saturating_sub(1);
        }
        if rep.samples.len() < 2 {
            rep.sample(json!({"fen": p.fen(), "tablebase": format!("{:?}", tb.probe(&p)), "depths": [d, d + 1, d + 2]}));
        }
    }
    // soundness: any root (won, drawn, lost), any depth 1..7
    let mut n = ctx.n(12_000, 600_000);
    let all = [Kind::Q, Kind::R, Kind::P, Kind::P, Kind::B, Kind::N];
    while n > 0 && ctx.time_left() {
        let p = random_three_man(&mut rng, &all);
        if p.legal_moves().is_empty() {
            continue;
        }
        let d = rng.gen_range(1..=7);
        let w = *workers.choose(&mut rng).unwrap();
        let sc = fresh(&mut rng, &p.fen(), d, w);
        let Some(res) = run_one(&sc, &ev) else { continue };
        judge_tb(&p, &sc, &res, &tb, false, rep);
        match tb.probe(&p) {
            Some(Val::Draw) => rep.count("soundness_roots_drawn", 1),
            Some(Val::Loss(_)) => rep.count("soundness_roots_lost", 1),
            _ => rep.count("soundness_roots_won", 1),
        }
        n -= 1;
    }
    // soundness beyond the tablebases: 4- and 5-man endings, all worker counts
    let classes: [(&[i8], &[i8]); 9] = [(&[4], &[4]), (&[5], &[5]), (&[5], &[4]), (&[4], &[5]), (&[4], &[3]), (&[4], &[2]), (&[5], &[3]), (&[4, 1], &[4]), (&[5], &[1])];
    let many = [1usize, 2, 3, 4, 6, 8, 12, 32];
    let mut n = ctx.n(16_000, 800_000);
    while n > 0 && ctx.time_left() {
        let (w, b) = classes[rng.gen_range(0..classes.len())];
        let p = random_material(&mut rng, w, b);
        if gen::q_cost(&p, 300_000) >= 300_000 {
            continue;
        }
        let d = rng.gen_range(2..=4);
        let wk = *many.choose(&mut rng).unwrap();
        let sc = fresh(&mut rng, &p.fen(), d, wk);
        let Some(res) = run_one(&sc, &ev) else { continue };
        judge_claims_by_solver(&p, &sc, &res, &tb, &tb4, rep);
        n -= 1;
    }
    // the 4-man tables themselves: roots drawn from each loaded table by value (short wins are rare among random
    // placements: all of KNNK, KBKB, KBKN, KNKN and most of KBNK / KBBK would never be visited otherwise)
    let mut n = ctx.n(6_000, 300_000);
    while n > 0 && ctx.time_left() && !tb4.tables.is_empty() {
        let t = &tb4.tables[rng.gen_range(0..tb4.tables.len())];
        let short = rng.gen_bool(0.7);
        let Some((p, v)) = t.sample(&mut rng, |v| if short { matches!(v, Val::Win(k) if k <= 5) } else { true }, 2_000_000) else {
            rep.count("four_man_table_without_short_win_drawn", 1);
            n -= 1;
            continue;
        };
        let p = if rng.gen_bool(0.5) { p.mirror() } else { p };
        if p.legal_moves().is_empty() {
            continue;
        }
        let depths: Vec<usize> = match v {
            Val::Win(k) if k <= 5 => vec![k as usize, k as usize + 1, k as usize + 2],
            _ => vec![rng.gen_range(1..=5)],
        };
        for d in depths {
            let wk = *many.choose(&mut rng).unwrap();
            let sc = fresh(&mut rng, &p.fen(), d, wk);
            let Some(res) = run_one(&sc, &ev) else { continue };
            judge_claims_by_solver(&p, &sc, &res, &tb, &tb4, rep);
            n = n.saturating_sub(1);
        }
        rep.count(&format!("four_man_roots_{}", t.name()), 1);
    }
    // beyond the tablebases: solver-proved mates in richer material
    let mut n = ctx.n(3_000, 200_000);
    let empty: HashSet<PKey> = HashSet::new();
    while n > 0 && ctx.time_left() {
        let Some((p, d)) = sample_solver_mate(&mut rng, &empty) else { continue };
        for dd in [d, d + 1, d + 2] {
            let w = *workers.choose(&mut rng).unwrap();
            let sc = fresh(&mut rng, &p.fen(), dd, w);
            let Some(res) = run_one(&sc, &ev) else { continue };
            judge_solver(&p, d, &sc, &res, rep);
            n = n.saturating_sub(1);
        }
        rep.count(&format!("solver_mates_in_{}_plies", d), 1);
        if rep.samples.len() < 4 {
            rep.sample(json!({"fen": p.fen(), "solver_mate_in_plies": d}));
        }
    }
    // mates delivered by a side that is in check itself
    let mut n = ctx.n(900, 60_000);
    let mut tries = 0u64;
    while n > 0 && ctx.time_left() && tries < 4_000_000 {
        tries += 1;
        let Some((p, d)) = sample_mate_while_in_check(&mut rng, &empty) else { continue };
        if gen::q_cost(&p, 300_000) >= 300_000 {
            continue;
        }
        for dd in [d, d + 1, d + 2] {
            let w = *workers.choose(&mut rng).unwrap();
            let sc = fresh(&mut rng, &p.fen(), dd, w);
            let Some(res) = run_one(&sc, &ev) else { continue };
            judge_solver(&p, d, &sc, &res, rep);
            n = n.saturating_sub(1);
        }
        rep.count("solver_mates_delivered_while_in_check", 1);
    }
    // the mate problems of the corpus
    for (i, p) in gen::corpus().iter().enumerate() {
        if !ctx.mine(i as u64) || p.legal_moves().is_empty() || p.men() > 12 {
            continue;
        }
        let mut sv = Solver::new(&empty);
        sv.node_limit = 400_000;
        if let Some(d) = sv.mate_distance(p, 3) {
            for dd in [d, d + 1, d + 2] {
                let w = *workers.choose(&mut rng).unwrap();
            let sc = fresh(&mut rng, &p.fen(), dd, w);
                if let Some(res) = run_one(&sc, &ev) {
                    judge_solver(p, d, &sc, &res, rep);
                }
            }
        }
    }
}
