//! C05 — no-move positions score as mate or draw; others never as mate; mate scores monotone.

use crate::conv::*;
use crate::gen;
use crate::oracle::rules::*;
use crate::report::{Ctx, Report};
use crate::util::guard;
use rand::{seq::SliceRandom, Rng};
use serde_json::json;
use weechess_core::State;
use weechess_engine::eval::{Evaluation, Evaluator};

pub const PLIES: [usize; 9] = [0, 1, 2, 5, 9, 10, 11, 40, 200];

#[derive(PartialEq, Eq, Clone, Copy, Debug)]
pub enum Class {
    Mate,
    Stalemate,
    HasMove,
}

pub fn classify(p: &Pos) -> Class {
    if !p.legal_moves().is_empty() {
        Class::HasMove
    } else if p.in_check(p.wtm) {
        Class::Mate
    } else {
        Class::Stalemate
    }
}

pub fn check_position(p: &Pos, ev: &Evaluator, plies: &[usize], rep: &mut Report) -> bool {
    let class = classify(p);
    if class == Class::HasMove && p.imbalance() >= 90.0 {
        rep.count("skipped_imbalance_ge_90", 1);
        return true;
    }
    let st: State = to_state(p);
    let fen = p.fen();
    let stm = color(p.wtm);
    for &ply in plies {
        for own in [true, false] {
            let persp = if own { stm } else { !stm };
            let e = match guard(|| ev.evaluate(&st, persp, ply)) {
                Ok(e) => e,
                Err(e) => {
                    rep.violation("evaluate-panic", &format!("evaluate-panic|{}", fen), &e, json!({"fen": fen}));
                    return false;
                }
            };
            rep.eval(1);
            let bad = match class {
                Class::Mate => {
                    let m = Evaluation::mate_in_ply(ply);
                    let want = if own { -m } else { m };
                    if e != want {
                        Some(format!("checkmate at ply {} from {} perspective scored {:?}, expected {:?}", ply, if own { "own" } else { "opponent" }, e, want))
                    } else {
                        None
                    }
                }
                Class::Stalemate => {
                    if e != Evaluation::EVEN {
                        Some(format!("stalemate scored {:?}", e))
                    } else {
                        None
                    }
                }
                Class::HasMove => {
                    if e.is_terminal() {
                        Some(format!("position with {} legal moves scored terminal {:?} (ply {})", p.legal_moves().len(), e, ply))
                    } else {
                        None
                    }
                }
            };
            if let Some(msg) = bad {
                let kind = match class {
                    Class::Mate => "mate-score",
                    Class::Stalemate => "stalemate-score",
                    Class::HasMove => "terminal-score-with-moves",
                };
                rep.violation(kind, &format!("{}|{}", kind, fen), &msg, json!({"fen": fen}));
                return false;
            }
        }
    }
    match class {
        Class::Mate => {
            rep.count("checkmates", 1);
            rep.distinct(p.key_hash());
            // the shortcut in the evaluator looks at free squares around the king: count mates where
            // such a square exists by geometry (x-rayed square behind the king)
            if king_has_unoccupied_neighbour(p) {
                rep.count("checkmates_with_empty_king_neighbour", 1);
            }
        }
        Class::Stalemate => {
            rep.count("stalemates", 1);
            rep.distinct(p.key_hash());
        }
        Class::HasMove => {
            rep.count("positions_with_moves", 1);
            if p.in_check(p.wtm) {
                rep.count("in_check_with_escape", 1);
                rep.distinct(p.key_hash());
            } else if !king_can_step(p) {
                rep.count("king_immobile_but_other_moves", 1);
                rep.distinct(p.key_hash());
            }
        }
    }
    true
}

fn king_has_unoccupied_neighbour(p: &Pos) -> bool {
    let k = p.king_sq(p.wtm).unwrap();
    KING.iter().any(|(df, dr)| at(file(k) + df, rank(k) + dr).map(|s| p.b[s as usize] == 0).unwrap_or(false))
}

fn king_can_step(p: &Pos) -> bool {
    p.legal_moves().iter().any(|m| m.piece == Kind::K)
}

/// Terminal-biased sampler: a king boxed in by its own men and attacked by random enemy material;
/// kept only when the oracle finds no legal move.
pub fn sample_terminal(rng: &mut gen::R) -> Option<Pos> {
    let mut b = [0i8; 64];
    let white_victim = rng.gen_bool(0.5);
    let me: i8 = if white_victim { 1 } else { -1 };
    let k = match rng.gen_range(0..10) {
        0..=3 => *[0usize, 7, 56, 63].choose(rng).unwrap(),
        4..=7 => {
            let e = rng.gen_range(0..8);
            match rng.gen_range(0..4) {
                0 => e,
                1 => 56 + e,
                2 => e * 8,
                _ => e * 8 + 7,
            }
        }
        _ => rng.gen_range(0..64),
    };
    b[k] = 6 * me;
    // own blockers around the king
    for (df, dr) in KING {
        if let Some(s) = at(file(k as u8) + df, rank(k as u8) + dr) {
            if rng.gen_bool(0.35) {
                let kind = *[1i8, 1, 2, 3, 4].choose(rng).unwrap();
                if kind == 1 && (s < 8 || s >= 56) {
                    continue;
                }
                b[s as usize] = kind * me;
            }
        }
    }
    // enemy king
    loop {
        let s = rng.gen_range(0..64usize);
        if b[s] == 0 {
            b[s] = -6 * me;
            break;
        }
    }
    for _ in 0..rng.gen_range(1..5) {
        let kind = *[5i8, 4, 4, 3, 2, 1].choose(rng).unwrap();
        let s = rng.gen_range(0..64usize);
        if b[s] != 0 || (kind == 1 && (s < 8 || s >= 56)) {
            continue;
        }
        b[s] = -kind * me;
    }
    // a few more own men elsewhere (pinned defenders, blocked pawns)
    for _ in 0..rng.gen_range(0..3) {
        let kind = *[1i8, 2, 3, 4, 5].choose(rng).unwrap();
        let s = rng.gen_range(0..64usize);
        if b[s] != 0 || (kind == 1 && (s < 8 || s >= 56)) {
            continue;
        }
        b[s] = kind * me;
    }
    let p = Pos { b, wtm: white_victim, castle: 0, ep: None, half: 0, full: 1 };
    if !p.is_legal_position() || !p.legal_moves().is_empty() {
        return None;
    }
    Some(p)
}

/// all legal 3-man positions K+X vs K (both colours own X through mirroring), both sides to move
pub fn three_man<F: FnMut(&Pos)>(kind: Kind, slice: Option<(u64, u64)>, mut f: F) {
    let mut n = 0u64;
    for wk in 0..64u8 {
        for bk in 0..64u8 {
            for x in 0..64u8 {
                if wk == bk || wk == x || bk == x || (kind == Kind::P && (x < 8 || x >= 56)) {
                    continue;
                }
                n += 1;
                if let Some((i, of)) = slice {
                    if n % of != i {
                        continue;
                    }
                }
                for wtm in [true, false] {
                    let mut b = [0i8; 64];
                    b[wk as usize] = 6;
                    b[bk as usize] = -6;
                    b[x as usize] = kind as i8;
                    let p = Pos { b, wtm, castle: 0, ep: None, half: 0, full: 1 };
                    if p.is_legal_position() {
                        f(&p);
                    }
                }
            }
        }
    }
}

pub fn run(ctx: &Ctx, rep: &mut Report) {
    let ev = Evaluator::default();
    if let Some(path) = &ctx.replay {
        let v: serde_json::Value = serde_json::from_slice(&std::fs::read(path).expect("replay file")).expect("replay json");
        let p = Pos::from_fen(v["fen"].as_str().unwrap()).expect("replay fen");
        check_position(&p, &ev, &PLIES, rep);
        return;
    }
    // mate_in_ply: at least the threshold, never increasing
    let mut prev = Evaluation::mate_in_ply(0);
    for ply in 0..=300usize {
        let m = Evaluation::mate_in_ply(ply);
        rep.eval(1);
        if m < Evaluation::POS_INF || m > prev || !m.is_terminal() || !(-m).is_terminal() {
            rep.violation("mate-score-monotone", &format!("mate-score-monotone|{}", ply), &format!("mate_in_ply({}) = {:?}, previous {:?}", ply, m, prev), json!({"fen": Pos::start().fen()}));
            break;
        }
        prev = m;
    }
    let mut rng = gen::shard_rng(ctx.seed, ctx.shard, 5);
    // complete 3-man families (quick: all final positions and a seed-dependent 1/8 slice of the others)
    let of = ctx.of as u64;
    let stride = if ctx.thorough() { 1 } else { 8 };
    let off = ctx.seed % stride;
    for kind in [Kind::Q, Kind::R, Kind::B, Kind::N, Kind::P] {
        let mut n = 0u64;
        three_man(kind, None, |p| {
            n += 1;
            // every final position of the families at both tiers; of the others a slice at the quick tier
            if n % of == ctx.shard as u64 && ((n / of) % stride == off || p.legal_moves().is_empty()) {
                if p.legal_moves().is_empty() {
                    rep.count("three_man_final_positions", 1);
                }
                let q = if n % 2 == 0 { p.clone() } else { p.mirror() };
                check_position(&q, &ev, &[0, 3, 10, 40], rep);
                rep.count("three_man_positions", 1);
            }
        });
    }
    // terminal-biased sampler
    let want = ctx.n(40_000, 2_000_000);
    let mut got = 0;
    let mut tries = 0u64;
    while got < want && ctx.time_left() {
        tries += 1;
        if let Some(p) = sample_terminal(&mut rng) {
            check_position(&p, &ev, &PLIES, rep);
            got += 1;
            if rep.samples.len() < 3 {
                rep.sample(json!({"source": "terminal sampler", "fen": p.fen(), "class": format!("{:?}", classify(&p))}));
            }
        }
    }
    rep.count("terminal_sampler_tries", tries);
    rep.count("terminal_sampler_kept", got);
    // en passant as the answer to a check, often the only legal move
    for p in gen::ep_check_family(&mut rng, ctx.n(40_000, 1_000_000) as usize).iter() {
        check_position(p, &ev, &[0, 3, 10], rep);
        rep.count("ep_answers_check_positions", 1);
        let legal = p.legal_moves();
        if legal.len() == 1 && legal[0].ep {
            rep.count("en_passant_is_the_only_legal_move", 1);
        }
    }
    for p in gen::ep_family(&mut rng, ctx.n(40_000, 1_000_000) as usize).iter() {
        check_position(p, &ev, &[0, 10], rep);
    }
    // stalemate-like crowds whose only pseudo-legal move is an en-passant capture pinned along the rank
    for p in gen::ep_rank_pin_family(&mut rng, ctx.n(6_000, 300_000) as usize).iter() {
        check_position(p, &ev, &[0, 5], rep);
        rep.count("ep_rank_pin_positions", 1);
        if p.legal_moves().is_empty() && !p.in_check(p.wtm) {
            rep.count("stalemates_with_an_illegal_en_passant_capture", 1);
        }
    }
    // terminal positions of very little material (minor pieces and pawns only)
    let want = ctx.n(12_000, 600_000);
    let mut got = 0;
    let mut tries = 0u64;
    while got < want && tries < want * 400 && ctx.time_left() {
        tries += 1;
        if let Some(p) = gen::sparse_terminal(&mut rng) {
            check_position(&p, &ev, &[0, 3, 12], rep);
            got += 1;
            if p.in_check(p.wtm) && p.men() <= 4 {
                rep.count("checkmates_with_at_most_four_men", 1);
            }
        }
    }
    rep.count("sparse_terminal_positions", got);
    // corpus, play, sample
    for (i, p) in gen::corpus().iter().enumerate() {
        if ctx.mine(i as u64) {
            check_position(p, &ev, &PLIES, rep);
        }
    }
    let mut n = ctx.n(300_000, 10_000_000);
    let corpus = gen::corpus();
    while n > 0 && ctx.time_left() {
        let start = if rng.gen_bool(0.6) { Pos::start() } else { corpus[rng.gen_range(0..corpus.len())].clone() };
        let plies = rng.gen_range(20..250);
        let (game, last) = gen::play(&mut rng, &start, plies);
        for (p, _) in game.iter() {
            if p.in_check(p.wtm) || rng.gen_bool(0.2) {
                check_position(p, &ev, &[0, 7], rep);
                n = n.saturating_sub(1);
            }
        }
        check_position(&last, &ev, &PLIES, rep);
    }
    let mut n = ctx.n(200_000, 10_000_000);
    while n > 0 && ctx.time_left() {
        let p = gen::sample(&mut rng);
        check_position(&p, &ev, &[0, 7], rep);
        n -= 1;
    }
}
