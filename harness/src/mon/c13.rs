//! C13 — colour symmetry of the static evaluation.

use crate::conv::*;
use crate::gen;
use crate::mon::c05;
use crate::oracle::rules::*;
use crate::report::{Ctx, Report};
use crate::util::guard;
use rand::Rng;
use serde_json::json;
use weechess_core::Color;
use weechess_engine::eval::Evaluator;

pub const PLIES: [usize; 7] = [0, 1, 5, 9, 10, 11, 40];

pub fn check_position(p: &Pos, ev: &Evaluator, plies: &[usize], rep: &mut Report) -> bool {
    let st = to_state(p);
    let mir = p.mirror();
    let ms = to_state(&mir);
    let fen = p.fen();
    for &ply in plies {
        let r = guard(|| {
            (
                ev.evaluate(&st, Color::White, ply),
                ev.evaluate(&st, Color::Black, ply),
                ev.evaluate(&ms, Color::White, ply),
                ev.evaluate(&ms, Color::Black, ply),
            )
        });
        let (w, b, mw, mb) = match r {
            Ok(x) => x,
            Err(e) => {
                rep.violation("evaluate-panic", &format!("evaluate-panic|{}", fen), &e, json!({"fen": fen}));
                return false;
            }
        };
        rep.eval(2);
        if w != -b {
            rep.violation("antisymmetry", &format!("antisymmetry|{}", fen), &format!("ply {}: white view {:?}, black view {:?}", ply, w, b), json!({"fen": fen}));
            return false;
        }
        if mb != w || mw != b {
            rep.violation("mirror", &format!("mirror|{}", fen), &format!("ply {}: position ({:?},{:?}) mirrored {} gives ({:?},{:?}) for (black,white)", ply, w, b, mir.fen(), mb, mw), json!({"fen": fen}));
            return false;
        }
    }
    // non-trivial: material or structure is not itself mirror-symmetric
    let selfsym = mir.b == p.b;
    if !selfsym {
        rep.distinct(p.key_hash());
    }
    if p.count(1) + p.count(-1) > 0 {
        rep.count("positions_with_pawns", 1);
    }
    if p.men() <= 6 {
        rep.count("endgame_positions", 1);
    }
    true
}

pub fn run(ctx: &Ctx, rep: &mut Report) {
    let ev = Evaluator::default();
    if let Some(path) = &ctx.replay {
        let v: serde_json::Value = serde_json::from_slice(&std::fs::read(path).expect("replay file")).expect("replay json");
        let p = Pos::from_fen(v["fen"].as_str().unwrap()).expect("replay fen");
        check_position(&p, &ev, &PLIES, rep);
        return;
    }
    let mut rng = gen::shard_rng(ctx.seed, ctx.shard, 13);
    let corpus = gen::corpus();
    for (i, p) in corpus.iter().enumerate() {
        if ctx.mine(i as u64) {
            check_position(p, &ev, &PLIES, rep);
        }
    }
    // terminal positions
    let want = ctx.n(20_000, 1_000_000);
    let mut got = 0;
    while got < want && ctx.time_left() {
        if let Some(p) = c05::sample_terminal(&mut rng) {
            check_position(&p, &ev, &PLIES, rep);
            rep.count("terminal_positions", 1);
            got += 1;
        }
    }
    let mut got = 0;
    let mut tries = 0;
    while got < ctx.n(6_000, 300_000) && tries < 4_000_000 && ctx.time_left() {
        tries += 1;
        if let Some(p) = gen::sparse_terminal(&mut rng) {
            check_position(&p, &ev, &[0, 4], rep);
            got += 1;
        }
    }
    rep.count("sparse_terminal_positions", got);
    // 3-man slice
    let of = ctx.of as u64;
    let stride = if ctx.thorough() { 2 } else { 32 };
    for kind in [Kind::Q, Kind::R, Kind::B, Kind::N, Kind::P] {
        let mut n = 0u64;
        c05::three_man(kind, None, |p| {
            n += 1;
            if n % of == ctx.shard as u64 && (n / of) % stride == ctx.seed % stride {
                check_position(p, &ev, &[0, 10], rep);
                rep.count("three_man_positions", 1);
            }
        });
    }
    let mut n = ctx.n(400_000, 15_000_000);
    while n > 0 && ctx.time_left() {
        let start = if rng.gen_bool(0.6) { Pos::start() } else { corpus[rng.gen_range(0..corpus.len())].clone() };
        let plies = rng.gen_range(20..250);
        let (game, last) = gen::play(&mut rng, &start, plies);
        for (p, _) in game.iter() {
            check_position(p, &ev, &[0, 9], rep);
            n = n.saturating_sub(1);
        }
        check_position(&last, &ev, &PLIES, rep);
        if rep.samples.len() < 2 {
            rep.sample(json!({"fen": last.fen(), "mirrored": last.mirror().fen()}));
        }
    }
    let mut n = ctx.n(300_000, 15_000_000);
    while n > 0 && ctx.time_left() {
        let p = gen::sample(&mut rng);
        check_position(&p, &ev, &[0, 10], rep);
        n -= 1;
    }
}
