//! C16 — the opening book offers exactly the recorded, legal moves.

use crate::conv::*;
use crate::gen;
use crate::oracle::rules::*;
use crate::pgn;
use crate::report::{Ctx, Report};
use crate::util::guard;
use rand::Rng;
use serde_json::json;
use std::collections::{BTreeSet, HashMap};
use weechess_core::{MoveQuery, State};
use weechess_engine::book::OpeningBook;

pub const BOOK_PLIES: usize = 10;
type Coord = (u8, u8, Option<Kind>);
type Key = ([i8; 64], bool, u8, Option<u8>);

fn offered(book: &OpeningBook, st: &State) -> Result<Option<BTreeSet<Coord>>, String> {
    guard(|| book.lookup(st).map(|ms| ms.iter().map(|m| { let o = to_omove(m); (o.from, o.to, o.promo) }).collect()))
}

fn fmt(set: &BTreeSet<Coord>) -> String {
    set.iter().map(|c| format!("{}{}{}", sq_name(c.0), sq_name(c.1), c.2.map(|k| k.letter().to_ascii_lowercase().to_string()).unwrap_or_default())).collect::<Vec<_>>().join(" ")
}

/// whatever the book offers must be legal in the position it is offered for
fn offered_is_legal(book: &OpeningBook, p: &Pos, st: &State, why: &str, rep: &mut Report) -> bool {
    rep.eval(1);
    match offered(book, st) {
        Err(e) => {
            rep.violation("book-panic", &format!("book-panic|{}", p.fen()), &e, json!({"fen": p.fen()}));
            false
        }
        Ok(None) => true,
        Ok(Some(set)) => {
            rep.count(&format!("offers_on_{}", why), 1);
            let legal: BTreeSet<Coord> = p.legal_moves().iter().map(|m| (m.from, m.to, m.promo)).collect();
            if !set.is_subset(&legal) {
                let bad: BTreeSet<Coord> = set.difference(&legal).copied().collect();
                rep.violation("book-illegal-move", &format!("book-illegal-move|{}", p.fen()), &format!("book offers {} for {} ({}); not legal there: {}", fmt(&set), p.fen(), why, fmt(&bad)), json!({"fen": p.fen()}));
                return false;
            }
            true
        }
    }
}

pub fn run(ctx: &Ctx, rep: &mut Report) {
    let mut rng = gen::shard_rng(ctx.seed, ctx.shard, 16);
    let book = match guard(OpeningBook::try_default) {
        Ok(Ok(b)) => b,
        _ => {
            rep.violation("book-unreadable", "book-unreadable", "OpeningBook::try_default failed", json!({}));
            return;
        }
    };
    if let Some(path) = &ctx.replay {
        let v: serde_json::Value = serde_json::from_slice(&std::fs::read(path).expect("replay file")).expect("replay json");
        let p = Pos::from_fen(v["fen"].as_str().unwrap()).unwrap();
        offered_is_legal(&book, &p, &to_state(&p), "replay", rep);
        if let Some(w) = v.get("expected").and_then(|w| w.as_str()) {
            let got = offered(&book, &to_state(&p)).ok().flatten().map(|s| fmt(&s)).unwrap_or_default();
            rep.eval(1);
            if got != w {
                rep.violation("book-set", &format!("book-set|{}", p.fen()), &format!("book offers [{}], the games say [{}]", got, w), json!({"fen": p.fen(), "expected": w}));
            }
        }
        return;
    }
    // the whole corpus is replayed by every shard (cheap); judgements are partitioned
    let games = match pgn::read_dir(&format!("{}/book", std::env::var("VERIF_REPO").unwrap_or_else(|_| "/repo".into()))) {
        Ok(g) => g,
        Err(e) => {
            rep.inconclusive(&format!("book directory unreadable: {}", e));
            return;
        }
    };
    let mut expect: HashMap<Key, (Pos, Vec<String>, BTreeSet<Coord>)> = HashMap::new();
    let mut plies = 0u64;
    for g in games.iter() {
        let mut p = Pos::start();
        let mut lans: Vec<String> = vec![];
        for tok in g.san.iter().take(BOOK_PLIES) {
            match pgn::resolve(&p, tok) {
                Ok(m) => {
                    let e = expect.entry(p.key()).or_insert_with(|| (p.clone(), lans.clone(), BTreeSet::new()));
                    e.2.insert((m.from, m.to, m.promo));
                    lans.push(Pos::lan(&m));
                    p = p.make(&m);
                    plies += 1;
                }
                Err(n) => {
                    if ctx.shard == 0 {
                        rep.count("tokens_unresolved_by_oracle", 1);
                        rep.note(&format!("oracle resolves '{}' in {} game {} to {} moves", tok, g.file, g.index, n));
                    }
                    break;
                }
            }
        }
    }
    if ctx.shard == 0 {
        rep.count("games_in_book_directory", games.len() as u64);
        rep.count("book_plies_replayed", plies);
        rep.count("distinct_book_positions", expect.len() as u64);
    }
    let mut keys: Vec<&Key> = expect.keys().collect();
    keys.sort();
    for (i, k) in keys.iter().enumerate() {
        if !ctx.mine(i as u64) {
            continue;
        }
        let (p, lans, want) = &expect[*k];
        // (1) the state reached by replaying the same moves through weechess
        let queries: Vec<MoveQuery> = lans.iter().map(|l| {
            let mut q = MoveQuery::by_moving_from_to(sq(((l.as_bytes()[1] - b'1') * 8) + (l.as_bytes()[0] - b'a')), sq(((l.as_bytes()[3] - b'1') * 8) + (l.as_bytes()[2] - b'a')));
            if let Some(c) = l.chars().nth(4) {
                q.set_promotion(piece_of(match c { 'q' => Kind::Q, 'r' => Kind::R, 'b' => Kind::B, _ => Kind::N }));
            }
            q
        }).collect();
        let reached = guard(|| State::by_performing_moves(&State::default(), &queries));
        // (2) the state built from the oracle's fields without a useless en-passant target
        let mut canon = p.clone();
        if !canon.ep_legal() {
            if canon.ep_pseudo() {
                rep.count("positions_where_legal_and_pseudo_ep_differ", 1);
            }
            canon.ep = None;
        }
        let mut states: Vec<(&str, State)> = vec![("constructed", to_state(&canon))];
        match reached {
            Ok(Ok(s)) if to_pos(&s) == *p => states.push(("replayed", s)),
            _ => rep.count("replay_through_weechess_failed_left_to_C02", 1),
        }
        // (3) the same position (placement, side, rights, en-passant availability) with other move counters, and
        // (4) reached by a longer real history: knights shuffled out and back k times before the recorded moves
        let mut other = canon.clone();
        other.half = rng.gen_range(0..100);
        other.full = [1u64, 2, 5, 6, 7, 11, 40, 200][rng.gen_range(0..8)];
        if other.half != canon.half || other.full != canon.full {
            states.push(("constructed with other counters", to_state(&other)));
        }
        {
            let k = rng.gen_range(1..=3);
            let mut long: Vec<MoveQuery> = vec![];
            for _ in 0..k {
                for l in ["g1f3", "g8f6", "f3g1", "f6g8"] {
                    long.push(MoveQuery::by_moving_from_to(sq(((l.as_bytes()[1] - b'1') * 8) + (l.as_bytes()[0] - b'a')), sq(((l.as_bytes()[3] - b'1') * 8) + (l.as_bytes()[2] - b'a'))));
                }
            }
            long.extend(queries.iter().cloned());
            if let Ok(Ok(s)) = guard(|| State::by_performing_moves(&State::default(), &long)) {
                let q = to_pos(&s);
                if q.b == p.b && q.wtm == p.wtm && q.castle == p.castle {
                    states.push(("reached after knight shuffles", s));
                    rep.count("longer_histories_reaching_a_book_position", 1);
                }
            }
        }
        for (how, st) in states.iter() {
            rep.eval(1);
            rep.count("book_position_lookups", 1);
            match offered(&book, st) {
                Err(e) => {
                    rep.violation("book-panic", &format!("book-panic|{}", p.fen()), &e, json!({"fen": p.fen()}));
                }
                Ok(got) => {
                    let got = got.unwrap_or_default();
                    if got != *want {
                        let missing: BTreeSet<Coord> = want.difference(&got).copied().collect();
                        let extra: BTreeSet<Coord> = got.difference(want).copied().collect();
                        rep.violation("book-set", &format!("book-set|{}", to_pos(st).fen()), &format!("{} state of {} (after {}): book offers [{}], the games play [{}]; missing [{}], extra [{}]", how, to_pos(st).fen(), lans.join(" "), fmt(&got), fmt(want), fmt(&missing), fmt(&extra)), json!({"fen": to_pos(st).fen(), "expected": fmt(want)}));
                        break;
                    }
                }
            }
            offered_is_legal(&book, p, st, "book_positions", rep);
        }
        rep.distinct(p.key_hash());
        if rep.samples.len() < 3 && want.len() >= 3 {
            rep.sample(json!({"after": lans.join(" "), "fen": canon.fen(), "book_moves": fmt(want)}));
        }
        // histories reaching the same placement with other castling / en-passant state
        for mask in [WK | WQ, BK | BQ, WK | BK, WQ | BQ, 0xf, WK, BQ] {
            let mut q = canon.clone();
            q.castle &= !mask;
            if q.castle == canon.castle || !q.is_legal_position() {
                continue;
            }
            rep.count("rights_variants", 1);
            offered_is_legal(&book, &q, &to_state(&q), "rights_variants", rep);
        }
        // an en-passant target that the real history did not have
        let (pawn_r, ep_r, from_r, pawn) = if canon.wtm { (4, 5, 6, -1i8) } else { (3, 2, 1, 1i8) };
        for f in 0..8 {
            if canon.b[at(f, pawn_r).unwrap() as usize] == pawn && canon.b[at(f, ep_r).unwrap() as usize] == 0 && canon.b[at(f, from_r).unwrap() as usize] == 0 {
                let mut q = canon.clone();
                q.ep = at(f, ep_r);
                if q.ep != canon.ep && q.is_legal_position() && q.ep_legal() {
                    rep.count("ep_variants", 1);
                    offered_is_legal(&book, &q, &to_state(&q), "ep_variants", rep);
                }
            }
        }
        if canon.ep.is_some() {
            let mut q = canon.clone();
            q.ep = None;
            rep.count("ep_variants", 1);
            offered_is_legal(&book, &q, &to_state(&q), "ep_variants", rep);
        }
    }
    // king-walk histories: the same placement reached with rights really lost
    let mut n = ctx.n(3_000, 200_000);
    while n > 0 && ctx.time_left() {
        let plies = rng.gen_range(2..24);
        let (game, last) = gen::play(&mut rng, &Pos::start(), plies);
        for (p, _) in game.iter() {
            offered_is_legal(&book, p, &to_state(p), "random_play", rep);
        }
        offered_is_legal(&book, &last, &to_state(&last), "random_play", rep);
        rep.count("foreign_positions", game.len() as u64 + 1);
        n = n.saturating_sub(1);
    }
    let mut n = ctx.n(60_000, 5_000_000);
    while n > 0 && ctx.time_left() {
        let p = gen::sample(&mut rng);
        offered_is_legal(&book, &p, &to_state(&p), "sampled", rep);
        rep.count("foreign_positions", 1);
        n -= 1;
    }
}
