use crate::report::{Ctx, Report};

pub mod c01;
pub mod c02;
pub mod c03;
pub mod c04;
pub mod c05;
pub mod c08;
pub mod c09;
pub mod c10;
pub mod c11;
pub mod c12;
pub mod c20;
pub mod c13;

pub fn run(ctx: &Ctx, rep: &mut Report) {
    match ctx.prop.as_str() {
        "selftest" => match crate::selftest::oracle_perft(5_000_000) {
            Ok(n) => {
                rep.eval(n);
                let c = crate::gen::corpus();
                rep.note(&format!("oracle perft ok on {} nodes; corpus {} legal positions", n, c.len()));
            }
            Err(e) => rep.inconclusive(&e),
        },
        "corpus-lint" => {
            for b in crate::gen::corpus_lint() {
                println!("{}", b);
            }
        }
        "C01" => c01::run(ctx, rep),
        "C02" => c02::run(ctx, rep),
        "C03" => c03::run(ctx, rep),
        "C04" => c04::run(ctx, rep),
        "C05" => c05::run(ctx, rep),
        "C08" => c08::run(ctx, rep),
        "C09" => c09::run(ctx, rep),
        "C10" => c10::run(ctx, rep),
        "C11" => c11::run(ctx, rep),
        "C12" => c12::run(ctx, rep),
        "C20" => c20::run(ctx, rep),
        "C13" => c13::run(ctx, rep),
        other => rep.inconclusive(&format!("unknown property {}", other)),
    }
}
