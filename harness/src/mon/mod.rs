use crate::report::{Ctx, Report};

pub mod c01;
pub mod c02;
pub mod c03;
pub mod c04;
pub mod c05;
pub mod c06;
pub mod c07;
pub mod c08;
pub mod c09;
pub mod c10;
pub mod c11;
pub mod c12;
pub mod c20;
pub mod c13;
pub mod c14;
pub mod c15;
pub mod c16;
pub mod c17;
pub mod c18;
pub mod c19;

pub fn run(ctx: &Ctx, rep: &mut Report) {
    match ctx.prop.as_str() {
        "selftest" => match crate::selftest::oracle_perft(5_000_000) {
            Ok(n) => {
                rep.eval(n);
                let c = crate::gen::corpus();
                rep.note(&format!("oracle perft ok on {} nodes; corpus {} legal positions", n, c.len()));
            }
            Err(e) => rep.inconclusive(&e),
        },
        "tb4-build" => {
            // wv tb4-build [--mode "R,R"]: builds the 4-man tables into /verif/cache (setup only)
            use crate::oracle::rules::Kind;
            use crate::oracle::tb4::{cache_path, Table4, CLASSES};
            let _ = std::fs::create_dir_all("/verif/cache");
            let tb3 = crate::oracle::tb::Tablebases::build(&[Kind::Q, Kind::R, Kind::B, Kind::N]);
            for (w, b, same, known) in CLASSES {
                if !ctx.mode.is_empty() && ctx.mode != format!("{},{}{}", w.letter(), b.letter(), if same { ",same" } else { "" }) {
                    continue;
                }
                if std::path::Path::new(&cache_path(w, b, same)).exists() && ctx.tier != "thorough" {
                    println!("tb4 {} cached", cache_path(w, b, same));
                    continue;
                }
                let t = std::time::Instant::now();
                let tb = Table4::build(w, b, same, &tb3, 16);
                let mx = tb.max_win();
                tb.save(&cache_path(w, b, same)).expect("save tb4");
                println!("tb4 {} built in {:?}, longest win {} plies (published {})", tb.name(), t.elapsed(), mx, known);
            }
        }
        "tb4-info" => {
            use crate::oracle::tb4::{cache_path, Table4, CLASSES};
            for (w, b, same, known) in CLASSES {
                match Table4::load(&cache_path(w, b, same)) {
                    Ok(t) => println!("tb4 {} longest win {} plies (published {})", t.name(), t.max_win(), known),
                    Err(e) => println!("tb4 {} not loaded: {}", cache_path(w, b, same), e),
                }
            }
        }
        "tb-time" => {
            use crate::oracle::rules::Kind;
            let t = std::time::Instant::now();
            let tb = crate::oracle::tb::Tablebases::build(&[Kind::Q, Kind::R, Kind::B, Kind::N, Kind::P]);
            println!("built in {:?}; max win Q {} R {} P {} B {} N {}", t.elapsed(), tb.max_win(Kind::Q), tb.max_win(Kind::R), tb.max_win(Kind::P), tb.max_win(Kind::B), tb.max_win(Kind::N));
            println!("legal Q {} R {} P {}", tb.count_legal(Kind::Q), tb.count_legal(Kind::R), tb.count_legal(Kind::P));
        }
        "probe-search" => {
            // wv probe-search --mode "<fen>|<depth>|<workers>"
            let parts: Vec<&str> = ctx.mode.split('|').collect();
            let sc = crate::scenario::Scenario { tables: 8, buckets: 1024, hasher_seed: 1, steps: vec![crate::scenario::Step::new(parts[0], parts[1].parse().unwrap(), parts[2].parse().unwrap(), 7)] };
            let t = std::time::Instant::now();
            sc.run(&weechess_engine::eval::Evaluator::default(), |_, _, res| {
                println!("time {:?} nodes {} qnodes {} lines {:?} progress {:?}", t.elapsed(), res.nodes, res.qnodes, res.out.lines.iter().map(|l| (crate::srch::lan_line(&l.0), l.1)).collect::<Vec<_>>(), res.out.progress);
                true
            });
        }
        "capture-stats" => {
            let mut rng = crate::gen::shard_rng(ctx.seed, 0, 99);
            let mut v = vec![];
            let mut vs = vec![];
            for _ in 0..300 {
                let (g, _) = crate::gen::play(&mut rng, &crate::oracle::rules::Pos::start(), 80);
                for (p, _) in g.iter().step_by(7) {
                    let mut cap = 200_000i64;
                    crate::gen::capture_tree(p, &mut cap);
                    v.push(200_000 - cap.max(0));
                }
            }
            for _ in 0..2000 {
                let p = crate::gen::sample(&mut rng);
                if !crate::gen::realistic_material(&p, 1) { continue; }
                let mut cap = 200_000i64;
                crate::gen::capture_tree(&p, &mut cap);
                vs.push(200_000 - cap.max(0));
            }
            v.sort();
            vs.sort();
            let q = |v: &Vec<i64>, f: f64| v[((v.len() - 1) as f64 * f) as usize];
            println!("play n={} p50={} p90={} p99={} max={}", v.len(), q(&v, 0.5), q(&v, 0.9), q(&v, 0.99), q(&v, 1.0));
            println!("sample-realistic n={} p50={} p90={} p99={} max={}", vs.len(), q(&vs, 0.5), q(&vs, 0.9), q(&vs, 0.99), q(&vs, 1.0));
        }
        "q-cost" => {
            for f in ctx.mode.split('|') {
                let p = crate::oracle::rules::Pos::from_fen(f).unwrap();
                let t = std::time::Instant::now();
                println!("QCOST {} {:?} {}", crate::gen::q_cost(&p, 2_000_000), t.elapsed(), f);
            }
        }
        "gen-fens" => {
            let mut rng = crate::gen::shard_rng(ctx.seed, 0, 98);
            let corpus = crate::gen::corpus();
            for _ in 0..300 {
                let p = match ctx.mode.as_str() {
                    "play" => {
                        let plies = rand::Rng::gen_range(&mut rng, 0..80);
                        crate::gen::play(&mut rng, &crate::oracle::rules::Pos::start(), plies).1
                    }
                    "sample" => crate::gen::sample(&mut rng),
                    "realistic" => loop {
                        let p = crate::gen::sample(&mut rng);
                        if crate::gen::realistic_material(&p, 1) {
                            break p;
                        }
                    },
                    _ => crate::mon::c03::random_root(&mut rng, &corpus),
                };
                if !p.legal_moves().is_empty() {
                    println!("FEN {}", p.fen());
                }
            }
        }
        "corpus-lint" => {
            for b in crate::gen::corpus_lint() {
                println!("{}", b);
            }
        }
        "C01" => c01::run(ctx, rep),
        "C02" => c02::run(ctx, rep),
        "C03" => c03::run(ctx, rep),
        "C04" => c04::run(ctx, rep),
        "C05" => c05::run(ctx, rep),
        "C06" => c06::run(ctx, rep),
        "C07" => c07::run(ctx, rep),
        "C08" => c08::run(ctx, rep),
        "C09" => c09::run(ctx, rep),
        "C10" => c10::run(ctx, rep),
        "C11" => c11::run(ctx, rep),
        "C12" => c12::run(ctx, rep),
        "C20" => c20::run(ctx, rep),
        "C13" => c13::run(ctx, rep),
        "C14" => c14::run(ctx, rep),
        "C15" => c15::run(ctx, rep),
        "C16" => c16::run(ctx, rep),
        "C17" => c17::run(ctx, rep),
        "C18" => c18::run(ctx, rep),
        "C19" => c19::run(ctx, rep),
        other => rep.inconclusive(&format!("unknown property {}", other)),
    }
}
