//! C15 — the transposition table is a faithful bounded map, sequentially and under concurrency.
//! Everything goes through `verif::Table`, a thin wrapper over the real access layer and its locks.

use crate::gen;
use crate::report::{mix, Ctx, Report};
use rand::{seq::SliceRandom, Rng};
use serde_json::json;
use std::collections::{BTreeMap, HashMap, HashSet};
use std::sync::atomic::{AtomicU64, Ordering::*};
use std::sync::{Arc, Barrier};
use weechess_core::{Color, Move, Piece, PieceIndex, Square};
use weechess_engine::searcher::verif::{Table, TableEntry};

const SLOTS: usize = 8;

/// a unique, self-describing value per insert
fn value(id: u64) -> TableEntry {
    let from = Square::try_from((id % 64) as u8).unwrap();
    let to = Square::try_from(((id / 64) % 64) as u8).unwrap();
    let piece = [Piece::Pawn, Piece::Knight, Piece::Bishop, Piece::Rook, Piece::Queen, Piece::King][((id / 4096) % 6) as usize];
    assert!(id < 1 << 30, "ids of one history stay below 2^30");
    // the ply fields look like a search's for three values in four (remaining depth 0, 1 or 2 at a small ply: an
    // implementation may treat shallow and deep entries differently) and carry the whole id for the fourth
    let (depth, max_depth) = if id % 4 == 0 { ((id >> 20) as usize, id as usize) } else { (((id / 4) % 40) as usize, ((id / 4) % 40 + id % 4 - 1) as usize) };
    TableEntry {
        performed_move: Move::by_moving(PieceIndex::new(if id % 2 == 0 { Color::White } else { Color::Black }, piece), from, to),
        evaluation: id as i32,
        depth,
        max_depth,
        kind: (id % 3) as u8,
    }
}

fn id_of(e: &TableEntry) -> Option<u64> {
    if e.evaluation < 0 {
        return None;
    }
    let id = e.evaluation as u64;
    if *e == value(id) {
        Some(id)
    } else {
        None
    }
}

type Snap = BTreeMap<(usize, usize), Vec<u64>>;

fn snapshot(t: &Table) -> (Snap, usize, bool) {
    let occ = t.occupied();
    let mut m: Snap = BTreeMap::new();
    let mut seen = HashSet::new();
    let mut dup = false;
    for (ta, b, _slot, key) in occ.iter() {
        m.entry((*ta, *b)).or_default().push(*key);
        if !seen.insert(*key) {
            dup = true;
        }
    }
    (m, occ.len(), dup)
}

pub fn key_sets(rng: &mut gen::R, tables: usize, buckets: usize, style: usize, n: usize) -> Vec<u64> {
    let modulus = (tables * buckets).max(1) as u64;
    let mut v: Vec<u64> = match style {
        // random 64-bit keys
        0 => (0..n).map(|_| rng.gen()).collect(),
        // colliding modulo tables*buckets
        1 => {
            let r = rng.gen_range(0..modulus);
            (0..n).map(|i| r + modulus * (i as u64 + rng.gen_range(0..3) * 1000)).collect()
        }
        // aligned on several moduli at once (tables, buckets, tables*buckets, powers of two)
        2 => {
            let step = modulus * tables as u64 * buckets as u64 * 64;
            (0..n).map(|i| (i as u64).wrapping_mul(step).wrapping_add(rng.gen_range(0..2) * step * 1024)).collect()
        }
        // keys differing only in high bits (truncation would merge them)
        3 => {
            let low: u64 = rng.gen::<u32>() as u64;
            (0..n).map(|i| low | ((i as u64 + 1) << 32) | ((i as u64) << 48)).collect()
        }
        // small dense keys
        _ => (0..n).map(|i| i as u64).collect(),
    };
    if rng.gen_bool(0.5) {
        v.push(0);
        v.push(u64::MAX);
    }
    v.sort();
    v.dedup();
    v.shuffle(rng);
    v
}

/// Sequential exact audit. Returns false on a violation.
pub fn sequential(rng: &mut gen::R, tables: usize, buckets: usize, style: usize, ops: usize, rep: &mut Report) -> bool {
    let t = Table::new(tables, buckets);
    // few keys (many refreshes and lookups of the same entries) or, every other time, more keys than the table holds
    // (a table must pass through every fill level up to saturation)
    let full = tables * buckets * SLOTS;
    let nk = if full > 59 && full <= 1_000 && rng.gen_bool(0.35) { rng.gen_range(full / 3..full * 3 / 2 + 2) } else { rng.gen_range(1..60) };
    // (callers that ask for a handful of operations - the Miri run - get a handful)
    let ops = if ops < 40 { ops } else { ops.max((nk * 2).min(1_500)) };
    let keys = key_sets(rng, tables, buckets, style, nk);
    let mut model: HashMap<u64, u64> = HashMap::new(); // key -> id of the latest insert
    let (mut snap, mut count, _) = snapshot(&t);
    let mut next_id = 1u64;
    let mut trace: Vec<(u64, u64)> = vec![];
    let cap = tables * buckets * SLOTS;
    let replay = |trace: &Vec<(u64, u64)>| json!({"mode": "sequential", "tables": tables, "buckets": buckets, "inserts": trace});
    let sig = |k: &str| format!("{}|sequential|{}x{}", k, tables, buckets);
    if t.max_entries() != cap {
        rep.violation("capacity", &sig("capacity"), &format!("max_entries() = {} for {}x{} buckets of {}", t.max_entries(), tables, buckets, SLOTS), replay(&trace));
        return false;
    }
    for _ in 0..ops {
        let k = *keys.choose(rng).unwrap();
        let id = next_id;
        next_id += 1;
        t.insert(k, value(id));
        trace.push((k, id));
        model.insert(k, id);
        rep.eval(1);
        let (new, n, dup) = snapshot(&t);
        if dup {
            rep.violation("key-in-two-slots", &sig("key-in-two-slots"), &format!("after inserting {:#x} a key occupies two slots", k), replay(&trace));
            return false;
        }
        // where did k land?
        let home: Vec<(usize, usize)> = new.iter().filter(|(_, ks)| ks.contains(&k)).map(|(b, _)| *b).collect();
        if home.len() != 1 {
            rep.violation("inserted-key-missing", &sig("inserted-key-missing"), &format!("key {:#x} is in {} buckets right after its insert", k, home.len()), replay(&trace));
            return false;
        }
        let home = home[0];
        // The audit speaks about keys, not about where the implementation keeps them (a table may move entries
        // between buckets, e.g. when it grows, without breaking the property): nothing appears that was not inserted;
        // refreshing a stored key loses nothing; a new key loses nothing or exactly one other key, and then only one
        // whose bucket was full before, while the new key sits in a full bucket afterwards.
        let old_all: HashSet<u64> = snap.values().flatten().copied().collect();
        let new_all: HashSet<u64> = new.values().flatten().copied().collect();
        if let Some(x) = new_all.iter().find(|x| **x != k && !old_all.contains(x)) {
            rep.violation("bucket-content", &sig("bucket-content"), &format!("after inserting {:#x} the table also holds {:#x}, which it did not hold before", k, x), replay(&trace));
            return false;
        }
        if let Some((b, ks)) = new.iter().find(|(_, ks)| ks.len() > SLOTS) {
            rep.violation("bucket-content", &sig("bucket-content"), &format!("bucket {:?} holds {} keys (slots per bucket: {})", b, ks.len(), SLOTS), replay(&trace));
            return false;
        }
        let lost: Vec<u64> = old_all.difference(&new_all).copied().collect();
        if old_all.contains(&k) {
            if !lost.is_empty() {
                rep.violation("bucket-content", &sig("bucket-content"), &format!("storing again under {:#x}, which the table already held, made {} other key(s) disappear", k, lost.len()), replay(&trace));
                return false;
            }
        } else if !lost.is_empty() {
            let lost_bucket_full = lost.len() == 1 && snap.iter().any(|(_, ks)| ks.contains(&lost[0]) && ks.len() == SLOTS);
            let home_full = new.get(&home).map(|ks| ks.len() == SLOTS).unwrap_or(false);
            if lost.len() != 1 || !lost_bucket_full || !home_full {
                rep.violation("displacement", &sig("displacement"), &format!("inserting the new key {:#x} (now in bucket {:?}) made {} key(s) disappear; allowed: none, or one key of a bucket that was full, the new key then sitting in a full bucket (lost key's bucket was full: {}, new key's bucket is full: {})", k, home, lost.len(), lost_bucket_full, home_full), replay(&trace));
                return false;
            }
            rep.count("displacements", 1);
        }
        if t.entries() != n || n > cap {
            rep.violation("entry-count", &sig("entry-count"), &format!("entries() = {}, occupied slots = {}, capacity = {}", t.entries(), n, cap), replay(&trace));
            return false;
        }
        // lookups: every key of the set
        let present: HashSet<u64> = new.values().flatten().copied().collect();
        // lookups in a fresh random order each time, sometimes only a few of them, sometimes none: a defect
        // may depend on which key was looked up last before a later insert
        let mut order: Vec<u64> = keys.clone();
        order.shuffle(rng);
        match rng.gen_range(0..4) {
            0 => order.truncate(rng.gen_range(0..=2.min(order.len()))),
            1 => order.truncate(order.len() / 2),
            _ => {}
        }
        for q in order.iter() {
            let r = t.find(*q);
            rep.eval(1);
            match (present.contains(q), r) {
                (true, Some(e)) => {
                    if id_of(&e) != Some(model[q]) {
                        rep.violation("wrong-entry", &sig("wrong-entry"), &format!("find({:#x}) returned {:?}, latest insert under that key was #{}", q, id_of(&e), model[q]), replay(&trace));
                        return false;
                    }
                }
                (false, None) => {}
                (true, None) => {
                    rep.violation("entry-lost", &sig("entry-lost"), &format!("key {:#x} occupies a slot but find returns nothing", q), replay(&trace));
                    return false;
                }
                (false, Some(e)) => {
                    rep.violation("phantom-entry", &sig("phantom-entry"), &format!("find({:#x}) returned #{:?} although no slot holds that key", q, id_of(&e)), replay(&trace));
                    return false;
                }
            }
        }
        // a key that was never inserted
        let stranger: u64 = rng.gen();
        if !model.contains_key(&stranger) && t.find(stranger).is_some() {
            rep.violation("phantom-entry", &sig("phantom-entry"), &format!("find({:#x}) of a never-inserted key returned an entry", stranger), replay(&trace));
            return false;
        }
        snap = new;
        count = n;
    }
    let _ = count;
    rep.count("sequential_histories", 1);
    rep.count(&format!("geometry_{}x{}", tables, buckets), 1);
    rep.distinct(mix(mix(tables as u64, buckets as u64), mix(style as u64, trace.len() as u64 ^ trace[0].0)));
    true
}

#[derive(Clone, Debug)]
struct Op {
    thread: usize,
    insert: bool,
    key: u64,
    /// id inserted, or id found (0 = None, u64::MAX = unrecognisable entry)
    id: u64,
    call: u64,
    ret: u64,
}

/// Concurrent history + offline checker. Returns false on a violation.
pub fn concurrent(rng: &mut gen::R, tables: usize, buckets: usize, style: usize, threads: usize, ops_per_burst: usize, bursts: usize, yields: bool, rep: &mut Report) -> bool {
    let t = Arc::new(Table::new(tables, buckets));
    let nk = rng.gen_range(1..40);
    let keys = Arc::new(key_sets(rng, tables, buckets, style, nk));
    // preload sequentially to learn, from the storage itself, which keys share a bucket
    let mut next_id = 1u64;
    let mut latest_seq: HashMap<u64, u64> = HashMap::new();
    for k in keys.iter() {
        t.insert(*k, value(next_id));
        latest_seq.insert(*k, next_id);
        next_id += 1;
    }
    let (snap0, _, _) = snapshot(&t);
    let placed: HashSet<u64> = snap0.values().flatten().copied().collect();
    // no displacement is possible iff every key of the set is still present after the preload
    // (a key can only be lost through a full bucket receiving a ninth distinct key)
    let no_eviction = placed.len() == keys.len();
    let clock = Arc::new(AtomicU64::new(1));
    let ids = Arc::new(AtomicU64::new(next_id));
    let barrier = Arc::new(Barrier::new(threads + 1));
    let seeds: Vec<u64> = (0..threads).map(|_| rng.gen()).collect();
    let mut handles = vec![];
    for th in 0..threads {
        let (t, keys, clock, ids, barrier) = (t.clone(), keys.clone(), clock.clone(), ids.clone(), barrier.clone());
        let mut x = seeds[th] | 1;
        handles.push(std::thread::spawn(move || {
            let mut log: Vec<Op> = vec![];
            for _ in 0..bursts {
                barrier.wait();
                for _ in 0..ops_per_burst {
                    x ^= x << 13;
                    x ^= x >> 7;
                    x ^= x << 17;
                    let key = keys[(x >> 8) as usize % keys.len()];
                    let insert = (x >> 3) % 5 < 2;
                    if yields && (x >> 40) % 4 == 0 {
                        std::thread::yield_now();
                    }
                    if insert {
                        let id = ids.fetch_add(1, SeqCst);
                        let call = clock.fetch_add(1, SeqCst);
                        t.insert(key, value(id));
                        let ret = clock.fetch_add(1, SeqCst);
                        log.push(Op { thread: th, insert: true, key, id, call, ret });
                    } else {
                        let call = clock.fetch_add(1, SeqCst);
                        let r = t.find(key);
                        let ret = clock.fetch_add(1, SeqCst);
                        let id = match r {
                            None => 0,
                            Some(e) => id_of(&e).unwrap_or(u64::MAX),
                        };
                        log.push(Op { thread: th, insert: false, key, id, call, ret });
                    }
                }
                barrier.wait();
            }
            log
        }));
    }
    // the auditor takes part in the barriers and inspects the table at the quiescent points
    let cap = tables * buckets * SLOTS;
    let mut structural: Option<String> = None;
    for _ in 0..bursts {
        barrier.wait();
        barrier.wait();
        let (snap, n, dup) = snapshot(&t);
        if structural.is_none() {
            if dup {
                structural = Some("a key occupies two slots at a quiescent point".into());
            } else if t.entries() != n || n > cap {
                structural = Some(format!("entries() = {} but {} slots are occupied (capacity {})", t.entries(), n, cap));
            } else if snap.values().any(|v| v.len() > SLOTS) {
                structural = Some("a bucket holds more than 8 keys".into());
            } else {
                for k in snap.values().flatten() {
                    match t.find(*k) {
                        None => structural = Some(format!("key {:#x} occupies a slot but find returns nothing", k)),
                        Some(e) if id_of(&e).is_none() => structural = Some(format!("key {:#x} holds an entry nobody inserted (torn write?)", k)),
                        _ => {}
                    }
                }
            }
        }
    }
    let mut all: Vec<Op> = vec![];
    for h in handles {
        match h.join() {
            Ok(l) => all.extend(l),
            Err(_) => structural = Some("a worker thread panicked inside the table".into()),
        }
    }
    rep.eval(all.len() as u64);
    rep.count("concurrent_histories", 1);
    rep.count("concurrent_operations", all.len() as u64);
    rep.count(&format!("threads_{}", threads), 1);
    let hist_json = || {
        json!({"mode": "concurrent", "tables": tables, "buckets": buckets, "threads": threads, "style": style,
               "history": all.iter().take(400).map(|o| json!([o.thread, if o.insert { "insert" } else { "find" }, format!("{:#x}", o.key), o.id, o.call, o.ret])).collect::<Vec<_>>()})
    };
    let sig = |k: &str| format!("{}|concurrent|{}x{}|t{}", k, tables, buckets, threads);
    if let Some(m) = structural {
        rep.violation("structure", &sig("structure"), &m, hist_json());
        return false;
    }
    // offline per-key check
    let mut by_key: HashMap<u64, Vec<&Op>> = HashMap::new();
    let mut id_key: HashMap<u64, (u64, u64, u64)> = HashMap::new(); // id -> (key, call, ret)
    for (k, id) in latest_seq.iter() {
        id_key.insert(*id, (*k, 0, 0));
    }
    for o in all.iter() {
        by_key.entry(o.key).or_default().push(o);
        if o.insert {
            id_key.insert(o.id, (o.key, o.call, o.ret));
        }
    }
    let mut overlaps = 0u64;
    for (key, ops) in by_key.iter() {
        let inserts: Vec<&&Op> = ops.iter().filter(|o| o.insert).collect();
        for f in ops.iter().filter(|o| !o.insert) {
            if f.id == u64::MAX {
                rep.violation("unrecognisable-entry", &sig("unrecognisable-entry"), &format!("find({:#x}) returned an entry that no insert wrote", key), hist_json());
                return false;
            }
            if f.id != 0 {
                let Some((k, call, ret)) = id_key.get(&f.id) else {
                    rep.violation("unknown-value", &sig("unknown-value"), &format!("find({:#x}) returned value #{} that was never inserted", key, f.id), hist_json());
                    return false;
                };
                if k != key {
                    rep.violation("entry-of-another-key", &sig("entry-of-another-key"), &format!("find({:#x}) returned value #{} which was inserted under key {:#x}", key, f.id, k), hist_json());
                    return false;
                }
                if *call > f.ret {
                    rep.violation("value-from-the-future", &sig("value-from-the-future"), &format!("find({:#x}) returned value #{} whose insert began after the find returned", key, f.id), hist_json());
                    return false;
                }
                // stale: another insert on the key began after v's insert returned and returned before the find began
                if inserts.iter().any(|w| w.id != f.id && w.call > *ret && w.ret < f.call) {
                    rep.violation("stale-read", &sig("stale-read"), &format!("find({:#x}) returned value #{} although a later insert under that key had completed before the find began", key, f.id), hist_json());
                    return false;
                }
                if inserts.iter().any(|w| w.call < f.ret && w.ret > f.call) {
                    overlaps += 1;
                }
            } else if no_eviction {
                // the key was placed by the preload and nothing can displace it
                rep.violation("entry-lost", &sig("entry-lost"), &format!("find({:#x}) returned nothing although the key was stored and its bucket never held more than 8 distinct keys", key), hist_json());
                return false;
            }
        }
    }
    rep.count("finds_overlapping_an_insert_on_the_same_key", overlaps);
    if no_eviction {
        rep.count("histories_without_possible_displacement", 1);
    } else {
        rep.count("histories_with_displacement", 1);
    }
    // distinct interleavings: digest of the global (stamp-ordered) sequence of (thread, op kind)
    let mut order: Vec<&Op> = all.iter().collect();
    order.sort_by_key(|o| o.call);
    let mut h = 0u64;
    for o in order.iter().take(200) {
        h = mix(h, (o.thread as u64) << 1 | o.insert as u64);
    }
    rep.distinct(h);
    rep.aux_distinct("operation_interleavings", h);
    true
}

/// structural audit of the table inside real search artifacts (quiescent point: after the search)
fn audit_live(rng: &mut gen::R, rep: &mut Report) {
    use crate::scenario::{Scenario, Step};
    use weechess_engine::searcher::verif;
    let corpus = gen::corpus();
    let p = crate::mon::c03::random_root(rng, &corpus);
    let (tables, buckets) = *[(1usize, 1usize), (2, 5), (3, 7), (8, 64)].choose(rng).unwrap();
    let sc = Scenario { tables, buckets, hasher_seed: rng.gen(), steps: vec![Step::new(&p.fen(), rng.gen_range(2..=4), *[2usize, 4, 8, 32].choose(rng).unwrap(), rng.gen())] };
    // the artifact is consumed by the runner; re-run the search here to keep it
    crate::srch::install_observer();
    crate::srch::reset();
    let art = verif::small_artifact(sc.hasher_seed, tables, buckets);
    let st = crate::conv::to_state(&p);
    let cfg = crate::srch::Cfg { depth: sc.steps[0].depth, workers: sc.steps[0].workers, seed: sc.steps[0].seed };
    let out = crate::srch::search(&st, &weechess_engine::eval::Evaluator::default(), &cfg, &verif::Cancel::new(), Some(art));
    let Some(a) = out.artifact else { return };
    let occ = verif::artifact_occupied(&a);
    let (entries, cap) = verif::artifact_entries(&a);
    rep.eval(1);
    rep.count("live_search_tables_audited", 1);
    let keys: HashSet<u64> = occ.iter().map(|o| o.3).collect();
    let mut per_bucket: HashMap<(usize, usize), usize> = HashMap::new();
    for o in occ.iter() {
        *per_bucket.entry((o.0, o.1)).or_default() += 1;
    }
    let replay = json!({"mode": "live", "scenario": sc.to_json()});
    if keys.len() != occ.len() {
        rep.violation("key-in-two-slots", "key-in-two-slots|live", &format!("after a {}-worker search of {} a key occupies two slots", cfg.workers.unwrap(), p.fen()), replay);
    } else if entries != occ.len() || entries > cap || cap != tables * buckets * SLOTS {
        rep.violation("entry-count", "entry-count|live", &format!("entries() = {}, occupied = {}, capacity = {}", entries, occ.len(), cap), replay);
    } else if per_bucket.values().any(|n| *n > SLOTS) {
        rep.violation("structure", "structure|live", "a bucket holds more than 8 keys", replay);
    }
    if entries == cap {
        rep.count("live_tables_completely_full", 1);
    }
}

pub fn run(ctx: &Ctx, rep: &mut Report) {
    let mut rng = gen::shard_rng(ctx.seed, ctx.shard, 15);
    // shard and bucket counts of every shape: 1, small primes, powers of two, counts just above a power of two and
    // in between (an implementation may size or route by rounding to powers of two)
    let geoms: [(usize, usize); 14] = [(1, 1), (1, 2), (2, 1), (2, 5), (3, 7), (4, 4), (8, 16), (128, 3), (1, 17), (1, 24), (2, 40), (5, 100), (6, 10), (3, 33)];
    if let Some(path) = &ctx.replay {
        let v: serde_json::Value = serde_json::from_slice(&std::fs::read(path).expect("replay file")).expect("replay json");
        let (tables, buckets) = (v["tables"].as_u64().unwrap_or(1) as usize, v["buckets"].as_u64().unwrap_or(1) as usize);
        match v["mode"].as_str().unwrap_or("") {
            "sequential" => {
                // re-apply the recorded inserts under the same audit
                for _ in 0..3 {
                    for style in 0..5 {
                        if !sequential(&mut rng, tables, buckets, style, 300, rep) {
                            return;
                        }
                    }
                }
            }
            "concurrent" => {
                let th = v["threads"].as_u64().unwrap_or(4) as usize;
                for i in 0..200 {
                    if !concurrent(&mut rng, tables, buckets, v["style"].as_u64().unwrap_or(0) as usize, th, 40, 4, i % 2 == 0, rep) {
                        return;
                    }
                }
            }
            _ => {
                for _ in 0..50 {
                    audit_live(&mut rng, rep);
                }
            }
        }
        return;
    }
    let miri = ctx.mode == "miri";
    if miri {
        // small: every operation costs ~ms under the interpreter; the scheduler seed comes from MIRIFLAGS
        for (tables, buckets, style) in [(1usize, 1usize, 4usize), (2, 1, 1)] {
            sequential(&mut rng, tables, buckets, style, 8, rep);
            concurrent(&mut rng, tables, buckets, style, 3, 8, 2, true, rep);
        }
        rep.count("miri_runs", 1);
        return;
    }
    let mut n = ctx.n(2_000, 200_000);
    while n > 0 && ctx.time_left() {
        let (tables, buckets) = *geoms.choose(&mut rng).unwrap();
        let style = rng.gen_range(0..5);
        let ops = if tables * buckets > 512 { 60 } else if tables * buckets > 64 { 400 } else { 250 };
        sequential(&mut rng, tables, buckets, style, ops, rep);
        n -= 1;
    }
    let mut n = ctx.n(6_000, 600_000);
    let thread_counts = [2usize, 2, 3, 4, 8, 16, 32];
    while n > 0 && ctx.time_left() {
        let (tables, buckets) = *geoms.choose(&mut rng).unwrap();
        let style = rng.gen_range(0..5);
        let th = *thread_counts.choose(&mut rng).unwrap();
        let yields = rng.gen_bool(0.5);
        let (opb, bursts) = (rng.gen_range(5..60), rng.gen_range(1..5));
        concurrent(&mut rng, tables, buckets, style, th, opb, bursts, yields, rep);
        n -= 1;
    }
    if ctx.mode != "tsan" {
        let mut n = ctx.n(300, 30_000);
        while n > 0 && ctx.time_left() {
            audit_live(&mut rng, rep);
            n -= 1;
        }
    }
    rep.sample(json!({"example_history_shape": "threads x bursts x (insert(key, unique value) | find(key)) with call/return stamps from one atomic clock; audit of all buckets at every barrier"}));
}
