//! C04 — the search ends by itself when depth-limited, obeys Stop within a bounded amount of
//! work, never panics (terminal roots included), and its artifact seeds the next search.
//!
//! "Short bounded time" is decided on logical counters, never on wall clock:
//!   * after the Cancel site fires, no pool thread may enter more than NODE_BOUND further nodes,
//!   * no more than ITER_BOUND further deepening iterations may complete,
//!   * the search thread must then return.
//! Wall clock only separates *stuck* (no node event for STALL_S seconds and not finished: a
//! violation, the process is not slow but waiting for nothing) from *slow* (events keep coming:
//! keep waiting; the outer watchdog makes that inconclusive).

use crate::conv::*;
use crate::gen;
use crate::mon::{c03, c05};
use crate::oracle::rules::*;
use crate::report::{mix, Ctx, Report};
use crate::srch;
use crate::util;
use rand::{seq::SliceRandom, Rng};
use serde_json::{json, Value};
use std::sync::atomic::Ordering::*;
use std::sync::mpsc::RecvTimeoutError;
use std::sync::{Arc, Mutex};
use std::time::{Duration, Instant};
use weechess_engine::eval::Evaluator;
use weechess_engine::searcher::verif::{self};
use weechess_engine::searcher::{ControlEvent, SearchArtifact, Searcher, StatusEvent};

pub const NODE_BOUND: u64 = 100_000;
pub const ITER_BOUND: u64 = 1_000;
/// quiescence nodes one pool thread may enter after Cancel fired (they are neither counted nor
/// polled by the engine; see known finding F11)
pub const QNODE_BOUND: u64 = 3_000_000;
pub const EXPLOSIVE_FEN: &str = "rBq1k2r/5p2/1p1n1K2/N2bbpRR/1bN3pB/R1N2Rr1/1b4P1/R5rR w q - 43 65";
pub const QSIG: &str = "stop-ignored-in-quiescence|Searcher::quiescence_search";
pub const STALL_S: f64 = 6.0;
pub const OUTER_S: f64 = 150.0;

/// utime + stime of this process in clock ticks: a search that allocates memory or is starved of
/// CPU by other processes still accumulates ticks; a blocked one does not
fn self_cpu_ticks() -> u64 {
    let Ok(s) = std::fs::read_to_string("/proc/self/stat") else { return 0 };
    let Some(i) = s.rfind(')') else { return 0 };
    let f: Vec<&str> = s[i + 1..].split_whitespace().collect();
    f.get(11).and_then(|x| x.parse::<u64>().ok()).unwrap_or(0) + f.get(12).and_then(|x| x.parse::<u64>().ok()).unwrap_or(0)
}

/// CPU ticks (1/100 s, all threads of the process) a search may burn without entering any node
pub const BUSY_TICKS: u64 = 2_000;
/// resident memory no search of this workload comes near (the engine's own memory is 1 GiB)
pub const RSS_BOUND: u64 = 6 << 30;

fn self_rss_bytes() -> u64 {
    let Ok(s) = std::fs::read_to_string("/proc/self/statm") else { return 0 };
    s.split_whitespace().nth(1).and_then(|x| x.parse::<u64>().ok()).unwrap_or(0) * 4096
}

fn stall_s(ctx: &Ctx) -> f64 {
    if ctx.mode == "miri" {
        900.0
    } else if ctx.mode == "tsan" {
        30.0
    } else {
        STALL_S
    }
}

fn outer_s(ctx: &Ctx) -> f64 {
    if ctx.mode == "miri" {
        // (the shard's own watchdog is 3000 s; a thorough run next to another one once needed more than 1500 s)
        2700.0
    } else if ctx.mode == "tsan" {
        900.0
    } else {
        OUTER_S
    }
}

#[derive(Clone, Debug)]
pub struct Case {
    pub fen: String,
    pub depth: Option<usize>,
    pub seed: u64,
    pub tables: usize,
    pub buckets: usize,
    pub hasher_seed: u64,
    /// Stop is sent when these node counts are reached (0 = immediately after the call returns)
    pub stops: Vec<u64>,
    /// also send Stop after the search finished
    pub stop_after: bool,
    /// drop the receiver after this many events (None = keep)
    pub drop_rx_after: Option<usize>,
    pub followup_depth: usize,
    /// keep the receiver but do not read it until the search thread has returned
    pub hold_rx: bool,
    /// no previous artifact: the engine creates its own (full-size) memory
    pub fresh_memory: bool,
}

impl Case {
    pub fn to_json(&self) -> Value {
        json!({"fen": self.fen, "depth": self.depth, "seed": self.seed, "tables": self.tables, "buckets": self.buckets, "hasher_seed": self.hasher_seed,
               "stops": self.stops, "stop_after": self.stop_after, "drop_rx_after": self.drop_rx_after, "followup_depth": self.followup_depth,
               "hold_rx": self.hold_rx, "fresh_memory": self.fresh_memory})
    }
    pub fn from_json(v: &Value) -> Case {
        Case {
            fen: v["fen"].as_str().unwrap().into(),
            depth: v["depth"].as_u64().map(|d| d as usize),
            seed: v["seed"].as_u64().unwrap(),
            tables: v["tables"].as_u64().unwrap() as usize,
            buckets: v["buckets"].as_u64().unwrap() as usize,
            hasher_seed: v["hasher_seed"].as_u64().unwrap(),
            stops: v["stops"].as_array().unwrap().iter().map(|x| x.as_u64().unwrap()).collect(),
            stop_after: v["stop_after"].as_bool().unwrap_or(false),
            drop_rx_after: v["drop_rx_after"].as_u64().map(|d| d as usize),
            followup_depth: v["followup_depth"].as_u64().unwrap_or(1) as usize,
            hold_rx: v["hold_rx"].as_bool().unwrap_or(false),
            fresh_memory: v["fresh_memory"].as_bool().unwrap_or(false),
        }
    }
    /// identifies the failing input for known findings: root + depth limit + whether Stop is involved
    pub fn signature(&self, kind: &str) -> String {
        format!("{}|{}|depth={}|stop={}{}{}", kind, self.fen, self.depth.map(|d| d.to_string()).unwrap_or("none".into()), if self.stops.is_empty() { "no" } else { "yes" }, if self.hold_rx { "|receiver-unread" } else { "" }, if self.fresh_memory { "|own-memory" } else { "" })
    }
}

pub enum Verdict {
    Ok(Option<SearchArtifact>),
    Violation,
    /// threads are stuck inside the engine: the process must end
    Fatal,
    Inconclusive,
}

/// all oracle-found lines end within `plies` and the tree has at most `max_nodes` nodes
pub fn bounded_tree(p: &Pos, plies: usize, max_nodes: &mut i64) -> bool {
    *max_nodes -= 1;
    if *max_nodes < 0 {
        return false;
    }
    let ms = p.legal_moves();
    if ms.is_empty() {
        return true;
    }
    if plies == 0 {
        return false;
    }
    ms.iter().all(|m| bounded_tree(&p.make(m), plies - 1, max_nodes))
}

pub fn sample_bounded(rng: &mut gen::R) -> Pos {
    loop {
        // a predecessor of a terminal position: un-move one man of the side that delivered it
        let Some(t) = c05::sample_terminal(rng) else { continue };
        let mover_white = !t.wtm;
        let men: Vec<usize> = (0..64).filter(|&s| t.b[s] != 0 && (t.b[s] > 0) == mover_white && t.b[s].abs() != 1).collect();
        if men.is_empty() {
            continue;
        }
        let s = *men.choose(rng).unwrap();
        let from = rng.gen_range(0..64usize);
        if t.b[from] != 0 {
            continue;
        }
        let mut q = t.clone();
        q.b[from] = q.b[s];
        q.b[s] = 0;
        q.wtm = mover_white;
        if !q.is_legal_position() || q.legal_moves().is_empty() {
            continue;
        }
        let mut budget = 3000i64;
        if bounded_tree(&q, 6, &mut budget) {
            return q;
        }
    }
}

pub fn run_case(case: &Case, ev: &Evaluator, ctx: &Ctx, rep: &mut Report) -> Verdict {
    let root = Pos::from_fen(&case.fen).expect("case fen");
    let st = to_state(&root);
    let has_move = !root.legal_moves().is_empty();
    srch::install_observer();
    srch::reset();
    let mark = util::panic_mark();
    let art = if case.fresh_memory { None } else { Some(verif::small_artifact(case.hasher_seed, case.tables, case.buckets)) };
    let replay = json!({"case": case.to_json()});
    let (handle, tx, rx) = Searcher::new().analyze(st, case.seed, ev.clone(), case.depth, art);
    if case.fresh_memory {
        rep.count("searches_creating_their_own_memory", 1);
    }
    if case.hold_rx {
        rep.count("receiver_held_unread_until_return", 1);
    }
    rep.eval(1);
    rep.count("searches_public_entry", 1);
    // Stop instants by node count
    let pending: Arc<Mutex<Vec<u64>>> = Arc::new(Mutex::new(case.stops.iter().copied().filter(|k| *k > 0).collect()));
    let stops_sent = Arc::new(std::sync::atomic::AtomicU64::new(0));
    // Every Stop goes out from a thread of its own, through a clone of whatever sender type the engine hands out:
    // the harness neither names that type nor blocks if the channel is bounded.
    let send_stop: Arc<dyn Fn() + Send + Sync> = {
        let txm = Mutex::new(tx.clone());
        Arc::new(move || {
            let t = txm.lock().unwrap().clone();
            std::thread::spawn(move || {
                let _ = t.send(ControlEvent::Stop);
            });
        })
    };
    if case.stops.contains(&0) {
        send_stop();
        stops_sent.fetch_add(1, SeqCst);
    }
    {
        // the trigger re-arms itself for the next instant
        let pend = pending.clone();
        let sent = stops_sent.clone();
        let first = pend.lock().unwrap().first().copied();
        if let Some(k) = first {
            let send = send_stop.clone();
            srch::set_trigger(
                k,
                Box::new(move || {
                    send();
                    sent.fetch_add(1, SeqCst);
                    let mut p = pend.lock().unwrap();
                    if !p.is_empty() {
                        p.remove(0);
                    }
                    // further Stops of this case are sent by the watcher loop (same node instants)
                }),
            );
        }
    }
    let t0 = Instant::now();
    let mut rx = Some(rx);
    let mut events = 0usize;
    let mut lines: Vec<Vec<weechess_core::Move>> = vec![];
    let mut progress_after_cancel = 0u64;
    let mut last_nodes = 0u64;
    let mut last_change = Instant::now();
    let mut last_cpu = self_cpu_ticks();
    let mut cpu_at_last_node = self_cpu_ticks();
    let mut stop_sent_at: Option<Instant> = None;
    loop {
        // repeated Stops: the remaining instants
        {
            let mut p = pending.lock().unwrap();
            let n = srch::NODES.load(Relaxed);
            while srch::TRIGGER_FIRED.load(Relaxed) && !p.is_empty() && p[0] <= n {
                p.remove(0);
                send_stop();
                stops_sent.fetch_add(1, SeqCst);
            }
        }
        if stops_sent.load(SeqCst) > 0 && stop_sent_at.is_none() {
            stop_sent_at = Some(Instant::now());
        }
        if case.hold_rx {
            std::thread::sleep(Duration::from_millis(5));
        } else if let Some(r) = rx.as_ref() {
            match r.recv_timeout(Duration::from_millis(20)) {
                Ok(e) => {
                    events += 1;
                    match e {
                        StatusEvent::BestMove { line, .. } => lines.push(line),
                        StatusEvent::Progress { .. } => {
                            if srch::CANCEL_SEEN.load(Relaxed) {
                                progress_after_cancel += 1;
                            }
                        }
                        _ => {}
                    }
                    if case.drop_rx_after == Some(events) {
                        rx = None;
                        rep.count("receiver_dropped_mid_search", 1);
                    }
                }
                Err(RecvTimeoutError::Timeout) => {}
                Err(RecvTimeoutError::Disconnected) => {
                    rx = None;
                }
            }
        } else {
            std::thread::sleep(Duration::from_millis(5));
        }
        if handle.is_finished() {
            break;
        }
        let n = srch::NODES.load(Relaxed) + srch::QNODES.load(Relaxed);
        if n != last_nodes {
            last_nodes = n;
            last_change = Instant::now();
            cpu_at_last_node = self_cpu_ticks();
        }
        // busy but not searching: CPU time (not wall time) spent without entering a single node, or memory growing
        // without bound, after Stop was sent or under a depth limit - e.g. a line walk that never ends
        if ctx.mode != "miri" && (case.depth.is_some() || stops_sent.load(SeqCst) > 0) {
            let busy_ticks = if ctx.mode == "tsan" { BUSY_TICKS * 5 } else { BUSY_TICKS };
            let burnt = self_cpu_ticks().saturating_sub(cpu_at_last_node);
            let rss = self_rss_bytes();
            if burnt > busy_ticks || (rss > RSS_BOUND && ctx.mode != "tsan") {
                rep.violation("stop-ignored", &case.signature("busy-without-nodes"), &format!("the search used {} CPU ticks without entering a node (bound {}), resident memory {} MiB (bound {} MiB), and has not returned (nodes {}, cancel seen {})", burnt, busy_ticks, rss >> 20, RSS_BOUND >> 20, n, srch::CANCEL_SEEN.load(Relaxed)), replay);
                return Verdict::Fatal;
            }
        }
        // "stuck" means blocked: no node *and* (almost) no CPU used by this process over the window
        let cpu = self_cpu_ticks();
        if cpu > last_cpu + 10 {
            last_cpu = cpu;
            last_change = Instant::now();
        }
        let after = srch::MAX_THREAD_NODES_AFTER_CANCEL.load(Relaxed);
        let qafter = srch::MAX_THREAD_QNODES_AFTER_CANCEL.load(Relaxed);
        let panics = util::panics_since(mark);
        if qafter > QNODE_BOUND {
            // keyed by call site, not by input: every position with a large enough capture tree fails alike
            rep.violation("stop-ignored-in-quiescence", QSIG, &format!("a pool thread entered {} quiescence nodes after Cancel fired (bound {}) without polling the token; root {}", qafter, QNODE_BOUND, case.fen), replay);
            return Verdict::Fatal;
        }
        let fatal = if after > NODE_BOUND {
            Some(("stop-ignored", format!("a pool thread entered {} nodes after Cancel fired (bound {}) and the search has not returned", after, NODE_BOUND)))
        } else if progress_after_cancel > ITER_BOUND {
            Some(("stop-ignored", format!("{} further deepening iterations completed after Cancel fired (bound {}); nodes per iteration never reach the polling interval", progress_after_cancel, ITER_BOUND)))
        } else if last_change.elapsed().as_secs_f64() > stall_s(ctx) && (case.depth.is_some() || stops_sent.load(SeqCst) > 0) {
            if !panics.is_empty() {
                Some(("search-panic", format!("a search thread panicked ({}) and the control thread never returns", panics.join(" ; "))))
            } else if stops_sent.load(SeqCst) > 0 && !srch::CANCEL_SEEN.load(Relaxed) {
                Some(("stop-not-delivered", "Stop was sent but the cancellation never fired and no node was entered for seconds".to_string()))
            } else {
                Some(("hung", format!("no node entered for {:.0}s, search thread not finished (nodes {}, cancel seen {})", STALL_S, n, srch::CANCEL_SEEN.load(Relaxed))))
            }
        } else {
            None
        };
        if let Some((kind, msg)) = fatal {
            rep.violation(kind, &case.signature(kind), &msg, replay);
            return Verdict::Fatal;
        }
        if t0.elapsed().as_secs_f64() > outer_s(ctx) {
            rep.inconclusive(&format!("outer watchdog: search of {} still making progress after {}s", case.fen, outer_s(ctx)));
            return Verdict::Fatal;
        }
    }
    let joined = handle.join();
    // drain what is left
    if let Some(r) = rx.as_ref() {
        while let Ok(e) = r.try_recv() {
            if let StatusEvent::BestMove { line, .. } = e {
                lines.push(line)
            }
        }
    }
    if case.stop_after {
        // Stop after completion must be harmless (the receiver side is gone)
        send_stop();
        rep.count("stop_after_completion", 1);
    }
    let after = srch::MAX_THREAD_NODES_AFTER_CANCEL.load(SeqCst);
    rep.max("max_thread_nodes_after_cancel", after);
    rep.max("max_thread_quiescence_nodes_after_cancel", srch::MAX_THREAD_QNODES_AFTER_CANCEL.load(SeqCst));
    rep.count("quiescence_nodes", srch::QNODES.load(SeqCst));
    rep.max("max_iterations_after_cancel", progress_after_cancel);
    rep.count("nodes", srch::NODES.load(SeqCst));
    let panics = util::panics_since(mark);
    let artifact = match joined {
        Ok(a) => a,
        Err(_) => {
            rep.violation("search-panic", &case.signature("search-panic"), &format!("search thread panicked: {}", panics.join(" ; ")), replay);
            return Verdict::Violation;
        }
    };
    if !panics.is_empty() {
        rep.violation("search-panic", &case.signature("search-panic"), &format!("a thread panicked during the search: {}", panics.join(" ; ")), replay);
        return Verdict::Violation;
    }
    if after > NODE_BOUND {
        rep.violation("stop-slow", &case.signature("stop-slow"), &format!("a pool thread entered {} nodes after Cancel fired (bound {})", after, NODE_BOUND), replay);
        return Verdict::Violation;
    }
    if progress_after_cancel > ITER_BOUND {
        rep.violation("stop-slow", &case.signature("stop-slow"), &format!("{} deepening iterations after Cancel fired", progress_after_cancel), replay);
        return Verdict::Violation;
    }
    if !has_move {
        rep.count("terminal_roots", 1);
        if !lines.is_empty() {
            rep.violation("move-reported-on-terminal-root", &case.signature("move-reported-on-terminal-root"), &format!("reported {}", srch::lan_line(&lines[0])), replay);
            return Verdict::Violation;
        }
    } else if case.drop_rx_after.is_none() {
        for l in lines.iter() {
            if let Err(e) = srch::check_line(&root, l) {
                rep.count("illegal_line_seen_left_to_C03", 1);
                let _ = e;
            }
        }
    }
    if !case.stops.is_empty() {
        rep.count("searches_with_stop", 1);
        if case.stops.len() > 1 {
            rep.count("searches_with_repeated_stop", 1);
        }
        if case.stops.contains(&0) {
            rep.count("stop_before_first_node", 1);
        }
        if srch::CANCEL_SEEN.load(SeqCst) && srch::NODES.load(SeqCst) > srch::NODES_AT_CANCEL.load(SeqCst) {
            rep.count("stops_that_interrupted_a_running_iteration", 1);
        }
    }
    if case.depth.is_none() {
        rep.count("searches_without_depth_limit", 1);
    }
    rep.distinct(mix(root.key_hash(), case.depth.unwrap_or(99) as u64 * 131 + case.stops.first().copied().unwrap_or(7)));
    srch::reset();
    Verdict::Ok(Some(artifact))
}

/// the returned artifact must seed a following search (judged by C03's oracle)
fn followup(case: &Case, art: SearchArtifact, ev: &Evaluator, rng: &mut gen::R, rep: &mut Report) {
    let root = Pos::from_fen(&case.fen).unwrap();
    // next root: the same position, or a successor
    let legal = root.legal_moves();
    let next = if legal.is_empty() && case.fresh_memory {
        // after a finished game the next search is about another position
        Pos::from_fen("r1bq1rk1/pp2bppp/2n1pn2/2pp4/3P1B2/2PBPN2/PP1N1PPP/R2QK2R w KQ - 2 8").unwrap()
    } else if legal.is_empty() || rng.gen_bool(0.4) {
        root.clone()
    } else {
        root.make(legal.choose(rng).unwrap())
    };
    let st = to_state(&next);
    let cfg = srch::Cfg { depth: Some(case.followup_depth), workers: Some(*[1usize, 2, 4].choose(rng).unwrap()), seed: rng.gen() };
    let cancel = verif::Cancel::new();
    if std::env::var("VERIF_DEBUG").is_ok() {
        let h = verif::artifact_hash(&art, &st);
        let occ = verif::artifact_occupied(&art);
        eprintln!("DEBUG followup {} cfg {:?} entries {:?} root-present-before {}", next.fen(), cfg, verif::artifact_entries(&art), occ.iter().any(|o| o.3 == h));
    }
    let out = srch::search(&st, ev, &cfg, &cancel, Some(art));
    if std::env::var("VERIF_DEBUG").is_ok() {
        eprintln!("DEBUG lines {:?} progress {:?} panic {:?}", out.lines.iter().map(|l| srch::lan_line(&l.0)).collect::<Vec<_>>(), out.progress, out.panic);
    }
    rep.eval(1);
    rep.count("followup_searches_on_returned_artifact", 1);
    let replay = json!({"case": case.to_json(), "followup": next.fen()});
    if let Some(e) = out.panic {
        rep.violation("followup-panic", &format!("followup-panic|{}|{}", case.fen, next.fen()), &e, replay);
        return;
    }
    if next.legal_moves().is_empty() {
        if !out.lines.is_empty() {
            rep.violation("move-reported-on-terminal-root", &format!("move-reported-on-terminal-root|{}", next.fen()), "follow-up search of a terminal root reported a move", replay);
        }
        return;
    }
    if out.lines.is_empty() {
        rep.violation("followup-no-report", &format!("followup-no-report|{}|{}", case.fen, next.fen()), "search seeded with the returned artifact reported nothing", replay);
        return;
    }
    for (l, _) in out.lines.iter() {
        if let Err(e) = srch::check_line(&next, l) {
            rep.violation("followup-illegal-line", &format!("followup-illegal-line|{}|{}", case.fen, next.fen()), &e, replay);
            return;
        }
    }
}

pub fn make_case(rng: &mut gen::R, corpus: &[Pos], kind: &str) -> Case {
    let (tables, buckets) = *[(1usize, 1usize), (2, 5), (8, 64), (8, 1024), (128, 1024)].choose(rng).unwrap();
    let mut c = Case { fen: String::new(), depth: None, seed: rng.gen(), tables, buckets, hasher_seed: rng.gen(), stops: vec![], stop_after: rng.gen_bool(0.3), drop_rx_after: None, followup_depth: rng.gen_range(1..=2), hold_rx: false, fresh_memory: false };
    let log_uniform = |rng: &mut gen::R, hi: f64| -> u64 { (10f64.powf(rng.gen_range(0.0..hi.log10()))) as u64 };
    match kind {
        "terminal" => {
            let p = loop {
                if let Some(p) = c05::sample_terminal(rng) {
                    break p;
                }
            };
            c.fen = p.fen();
            c.depth = if rng.gen_bool(0.7) { Some(rng.gen_range(1..=6)) } else { None };
            if c.depth.is_none() || rng.gen_bool(0.3) {
                c.stops = vec![0];
            }
        }
        "bounded" => {
            let p = if rng.gen_bool(0.1) {
                Pos::from_fen(["6k1/6Q1/8/8/8/4p3/5q2/7K b - - 0 1", "8/1N6/k7/7R/3Q4/4P3/1R6/Kq6 w - - 0 1"][rng.gen_range(0..2)]).unwrap()
            } else {
                sample_bounded(rng)
            };
            c.fen = p.fen();
            c.depth = None;
            c.stops = vec![[0u64, 1, 2, 5, 20, 200, 2000][rng.gen_range(0..7)]];
        }
        "sparse" => {
            // few men: iterations become cheap once the table knows the tree
            let p = loop {
                let q = gen::sample(rng);
                if q.men() <= 5 && !q.legal_moves().is_empty() {
                    break q;
                }
            };
            c.fen = p.fen();
            c.depth = None;
            c.stops = vec![log_uniform(rng, 300_000.0)];
        }
        "depth" => {
            let p = c03::random_root(rng, corpus);
            c.depth = Some(c03::pick_depth(rng, p.men()));
            c.fen = p.fen();
            match rng.gen_range(0..4) {
                0 => c.drop_rx_after = Some(rng.gen_range(1..4)),
                1 => c.hold_rx = true,
                _ => {}
            }
        }
        "hold" => {
            // many iterations, receiver kept but unread: sparse endgames reach great depth quickly
            let p = loop {
                let q = gen::sample(rng);
                if q.men() <= 4 && !q.legal_moves().is_empty() && q.imbalance() < 8.0 {
                    break q;
                }
            };
            c.fen = p.fen();
            c.hold_rx = true;
            // many cheap iterations (two events each) pile up in the unread channel before Stop arrives
            c.depth = if rng.gen_bool(0.3) { Some(64) } else { None };
            c.stops = vec![(10f64.powf(rng.gen_range(2.5..4.7))) as u64];
        }
        "own-memory" => {
            // the engine allocates its own 1 GiB memory: terminal and ordinary roots, then a follow-up
            let p = if rng.gen_bool(0.6) {
                loop {
                    if let Some(p) = c05::sample_terminal(rng) {
                        break p;
                    }
                }
            } else {
                c03::random_root(rng, corpus)
            };
            c.fen = p.fen();
            c.fresh_memory = true;
            c.depth = Some(rng.gen_range(1..=2));
            c.followup_depth = rng.gen_range(1..=3);
        }
        _ => {
            // Stop at a chosen instant in a deep or unlimited search
            let p = c03::random_root(rng, corpus);
            c.fen = p.fen();
            c.depth = if rng.gen_bool(0.6) { None } else { Some(rng.gen_range(4..=6)) };
            let k = match rng.gen_range(0..6) {
                0 => 0,
                _ => log_uniform(rng, 1_000_000.0),
            };
            c.stops = vec![k];
            for _ in 0..[0usize, 0, 1, 2, 4][rng.gen_range(0..5)] {
                let last = *c.stops.last().unwrap();
                c.stops.push(last + rng.gen_range(0..3000));
            }
            if rng.gen_bool(0.25) {
                c.drop_rx_after = Some(rng.gen_range(1..6));
            }
            if c.depth.is_some() && rng.gen_bool(0.2) {
                // Stop that arrives after the depth limit was reached
                c.stops = vec![u64::MAX / 2];
                c.depth = Some(2);
            }
        }
    }
    c
}

pub fn run(ctx: &Ctx, rep: &mut Report) {
    let ev = Evaluator::default();
    let mut rng = gen::shard_rng(ctx.seed, ctx.shard, 4);
    let corpus = gen::corpus();
    if let Some(path) = &ctx.replay {
        let v: Value = serde_json::from_slice(&std::fs::read(path).expect("replay file")).expect("replay json");
        if v.get("case").is_some() {
            let case = Case::from_json(&v["case"]);
            for _ in 0..3 {
                match run_case(&case, &ev, ctx, rep) {
                    Verdict::Ok(Some(a)) => followup(&case, a, &ev, &mut rng, rep),
                    Verdict::Fatal => {
                        rep.write(ctx);
                        std::process::exit(if rep.violation_count > 0 { 1 } else { 2 });
                    }
                    _ => break,
                }
            }
        } else if v.get("scenario").is_some() {
            let sc = crate::scenario::Scenario::from_json(&v["scenario"]);
            sync_scenario(&sc, &ev, ctx, rep);
        }
        return;
    }
    if ctx.mode == "miri" {
        // the interpreter is ~1000x slower: two tiny king/pawn searches through the public entry
        // (control thread, channels, token, rayon workers at iteration 3+), one with Stop
        for (fen, depth, stops) in [("8/8/8/4k3/8/4K3/4P3/8 w - - 0 1", Some(2usize), vec![]), ("8/8/8/8/3k4/8/3PK3/8 b - - 0 1", None, vec![6u64])] {
            let case = Case { fen: fen.into(), depth, seed: ctx.seed, tables: 1, buckets: 2, hasher_seed: 7, stops, stop_after: true, drop_rx_after: None, followup_depth: 1, hold_rx: false, fresh_memory: false };
            match run_case(&case, &ev, ctx, rep) {
                Verdict::Ok(_) => rep.count("miri_searches", 1),
                Verdict::Fatal => {
                    rep.write(ctx);
                    std::process::exit(if rep.violation_count > 0 { 1 } else { 2 });
                }
                _ => {}
            }
        }
        // two lazy-SMP workers on the shared table under the interpreter (data-race and weak-memory detection)
        let s = crate::scenario::Step::new("8/8/8/4k3/8/4K3/4P3/8 w - - 0 1", 2, 2, ctx.seed);
        let sc = crate::scenario::Scenario { tables: 1, buckets: 2, hasher_seed: 3, steps: vec![s] };
        sync_scenario(&sc, &ev, ctx, rep);
        rep.count("miri_two_worker_searches", 1);
        return;
    }
    if ctx.mode == "quiescence" {
        // the listed input of known finding F11: Stop during an exploding capture search
        let case = Case { fen: EXPLOSIVE_FEN.into(), depth: Some(1), seed: 1, tables: 8, buckets: 1024, hasher_seed: 1, stops: vec![1], stop_after: false, drop_rx_after: None, followup_depth: 1, hold_rx: false, fresh_memory: false };
        match run_case(&case, &ev, ctx, rep) {
            Verdict::Ok(_) => rep.note("the listed quiescence explosion did not exceed the bound on this tree"),
            _ => {
                rep.write(ctx);
                std::process::exit(if rep.violation_count > 0 { 1 } else { 2 });
            }
        }
        return;
    }
    let mut n = ctx.n(2_500, 200_000);
    let kinds = ["stop", "stop", "depth", "terminal", "bounded", "sparse", "stop", "sync", "hold", "depth"];
    // a few searches that create their own full-size memory (1 GiB each: kept rare, first shards only)
    if ctx.shard < 8 && ctx.mode != "tsan" {
        for _ in 0..(if ctx.thorough() { 12 } else { 3 }) {
            let case = make_case(&mut rng, &corpus, "own-memory");
            rep.count("cases_own-memory", 1);
            match run_case(&case, &ev, ctx, rep) {
                Verdict::Ok(Some(a)) => followup(&case, a, &ev, &mut rng, rep),
                Verdict::Fatal => {
                    rep.write(ctx);
                    std::process::exit(if rep.violation_count > 0 { 1 } else { 2 });
                }
                _ => {}
            }
        }
    }
    let mut k = 0usize;
    while n > 0 && ctx.time_left() {
        let kind = kinds[k % kinds.len()];
        k += 1;
        n -= 1;
        if kind == "sync" {
            // explicit worker counts through the synchronous entry point, Stop by node count
            let p = c03::random_root(&mut rng, &corpus);
            let mut s = crate::scenario::Step::new(&p.fen(), 6, *c03::WORKERS.choose(&mut rng).unwrap(), rng.gen());
            s.depth = if rng.gen_bool(0.5) { None } else { Some(6) };
            s.cancel_at = Some((10f64.powf(rng.gen_range(0.0..if ctx.mode == "tsan" { 4.5 } else { 5.5 }))) as u64);
            if ctx.mode == "tsan" {
                s.depth = s.depth.map(|d| d.min(4));
            }
            if rng.gen_bool(0.3) {
                s.delay = Some((rng.gen(), 1024));
            }
            let sc = crate::scenario::Scenario { tables: 8, buckets: 1024, hasher_seed: rng.gen(), steps: vec![s] };
            sync_scenario(&sc, &ev, ctx, rep);
            continue;
        }
        let mut case = make_case(&mut rng, &corpus, kind);
        if ctx.mode == "tsan" {
            // the instrumented build runs 5-10x slower: the same schedules with less work per search
            // (a thorough run on a loaded machine once spent the whole outer watchdog on one search)
            case.depth = case.depth.map(|d| if d <= 6 { d.min(4) } else { d });
            for s in case.stops.iter_mut() {
                *s = (*s).min(30_000);
            }
        }
        rep.count(&format!("cases_{}", kind), 1);
        match run_case(&case, &ev, ctx, rep) {
            Verdict::Ok(Some(a)) => {
                followup(&case, a, &ev, &mut rng, rep);
                if rep.samples.len() < 4 && !case.stops.is_empty() {
                    rep.sample(json!({"kind": kind, "case": case.to_json()}));
                }
            }
            Verdict::Fatal => {
                // engine threads are stuck; nothing more can be observed in this process
                rep.write(ctx);
                std::process::exit(if rep.violation_count > 0 { 1 } else { 2 });
            }
            _ => {}
        }
    }
    // After everything else: a tiny tree searched to a great depth (bare kings; even one locked pawn pair makes depth
    // 60 take half an hour): iterations far beyond any fixed ply bound an implementation might assume, ended by the
    // depth limit alone. One or two workers and a roomy memory (with a table of a few buckets, or many workers, the same
    // search takes minutes); a Stop at 60 M nodes (the unchanged engine needs about 7 M) keeps a degenerate search from
    // running into the watchdog.
    if ctx.mode != "miri" {
        for _ in 0..(if ctx.thorough() { 6 } else { 1 }) {
            let p = loop {
                let mut b = [0i8; 64];
                let (wk, bk) = (rng.gen_range(0..64usize), rng.gen_range(0..64usize));
                b[wk] = 6;
                b[bk] = -6;
                let q = Pos { b, wtm: rng.gen_bool(0.5), castle: 0, ep: None, half: 0, full: 1 };
                if wk != bk && q.is_legal_position() && !q.legal_moves().is_empty() {
                    break q;
                }
            };
            let mut s = crate::scenario::Step::new(&p.fen(), rng.gen_range(65..=72), if rng.gen_bool(0.3) { 2 } else { 1 }, rng.gen());
            s.cancel_at = Some(60_000_000);
            let sc = crate::scenario::Scenario { tables: 8, buckets: 1024, hasher_seed: rng.gen(), steps: vec![s] };
            rep.count("cases_deep", 1);
            sync_scenario(&sc, &ev, ctx, rep);
        }
    }
}

/// analyze_sync on a watched thread: explicit worker count, Stop at the k-th node
fn sync_scenario(sc: &crate::scenario::Scenario, ev: &Evaluator, ctx: &Ctx, rep: &mut Report) {
    let scc = sc.clone();
    let evc = ev.clone();
    let result: Arc<Mutex<Option<(bool, u64, usize, Option<String>)>>> = Arc::new(Mutex::new(None));
    let r2 = result.clone();
    let mark = util::panic_mark();
    let h = std::thread::spawn(move || {
        scc.run(&evc, |_, _, res| {
            *r2.lock().unwrap() = Some((res.cancel_seen, res.max_thread_nodes_after_cancel, res.out.lines.len(), res.out.panic.clone()));
            true
        });
    });
    let step = &sc.steps[0];
    let sig = format!("{}|depth={}|workers={}", step.fen, step.depth.map(|d| d.to_string()).unwrap_or("none".into()), step.workers.unwrap_or(0));
    let replay = json!({"scenario": sc.to_json()});
    let mut last_nodes = 0;
    let mut last_change = Instant::now();
    let mut last_cpu = self_cpu_ticks();
    let t0 = Instant::now();
    while !h.is_finished() {
        std::thread::sleep(Duration::from_millis(10));
        let n = srch::NODES.load(Relaxed) + srch::QNODES.load(Relaxed);
        if n != last_nodes {
            last_nodes = n;
            last_change = Instant::now();
        }
        let cpu = self_cpu_ticks();
        if cpu > last_cpu + 10 {
            last_cpu = cpu;
            last_change = Instant::now();
        }
        let after = srch::MAX_THREAD_NODES_AFTER_CANCEL.load(Relaxed);
        if srch::MAX_THREAD_QNODES_AFTER_CANCEL.load(Relaxed) > QNODE_BOUND {
            rep.violation("stop-ignored-in-quiescence", QSIG, &format!("quiescence nodes after Cancel exceed {}; root {}", QNODE_BOUND, step.fen), replay);
            rep.write(ctx);
            std::process::exit(1);
        }
        if after > NODE_BOUND {
            rep.violation("stop-ignored", &format!("stop-ignored|{}", sig), &format!("a pool thread entered {} nodes after Cancel fired and the search has not returned", after), replay);
            rep.write(ctx);
            std::process::exit(1);
        }
        if last_change.elapsed().as_secs_f64() > stall_s(ctx) {
            let p = util::panics_since(mark);
            rep.violation("hung", &format!("hung|{}", sig), &format!("no node entered for {}s and the search has not returned; panics: {:?}", STALL_S, p), replay);
            rep.write(ctx);
            std::process::exit(1);
        }
        if t0.elapsed().as_secs_f64() > outer_s(ctx) {
            rep.inconclusive("outer watchdog on a synchronous search");
            rep.write(ctx);
            std::process::exit(2);
        }
    }
    let _ = h.join();
    rep.eval(1);
    rep.count("searches_sync_entry", 1);
    rep.count(&format!("workers_{}", step.workers.unwrap_or(0)), 1);
    let taken = result.lock().unwrap().take();
    if let Some((cancel_seen, after, nlines, panic)) = taken {
        rep.max("max_thread_nodes_after_cancel", after);
        if let Some(e) = panic {
            rep.violation("search-panic", &format!("search-panic|{}", sig), &e, replay);
        } else if after > NODE_BOUND {
            rep.violation("stop-slow", &format!("stop-slow|{}", sig), &format!("{} nodes on one thread after Cancel", after), replay);
        } else if nlines == 0 {
            rep.count("no_report_left_to_C03", 1);
        }
        if cancel_seen {
            rep.count("searches_with_stop", 1);
        }
    }
}
