//! C01 — legal move generation equals the rules of chess (sets, attributes, perft).

use crate::conv::*;
use crate::gen;
use crate::oracle::rules::*;
use crate::report::{Ctx, Report};
use crate::util::guard;
use rand::Rng;
use serde_json::json;
use weechess_core::{
    notation::{try_from_notation, Fen},
    MoveGenerator, State,
};
use weechess_engine::searcher::Searcher;

#[derive(Default)]
pub struct Feat {
    pub nontrivial: bool,
}

/// Compare weechess' legal moves for `p` with the oracle's. Returns false on a violation.
pub fn check_position(p: &Pos, via_fen: bool, rep: &mut Report) -> bool {
    let fen = p.fen();
    let st: State = if via_fen {
        match guard(|| try_from_notation::<State, Fen>(&fen)) {
            Ok(Ok(s)) => s,
            // the FEN reader is C11's business; fall back to the constructor
            _ => to_state(p),
        }
    } else {
        to_state(p)
    };
    let legal = p.legal_moves();
    let got = match guard(|| MoveGenerator::compute_legal_moves(&st)) {
        Ok(g) => g,
        Err(e) => {
            rep.violation("movegen-panic", &format!("movegen-panic|{}", fen), &e, json!({"fen": fen}));
            return false;
        }
    };
    rep.eval(1);
    let mut a: Vec<OMove> = got.moves().iter().map(|m| to_omove(&m.0)).collect();
    a.sort();
    let mut b = legal.clone();
    b.sort();
    let dup = a.windows(2).any(|w| w[0] == w[1]);
    if dup {
        rep.violation("duplicate-move", &format!("duplicate-move|{}", fen), "generated move list contains a duplicate", json!({"fen": fen}));
        return false;
    }
    if a != b {
        let missing: Vec<String> = b.iter().filter(|m| !a.contains(m)).map(omove_str).collect();
        let extra: Vec<String> = a.iter().filter(|m| !b.contains(m)).map(omove_str).collect();
        rep.violation(
            "move-set",
            &format!("move-set|{}", fen),
            &format!("weechess {} moves, rules {}; missing {:?}; extra/wrong-attributes {:?}", a.len(), b.len(), missing, extra),
            json!({"fen": fen}),
        );
        return false;
    }
    // feature counters
    let in_check = p.in_check(p.wtm);
    let n_illegal = p.illegal_pseudo_moves().len();
    let ep_l = p.ep_legal();
    let ep_x = !ep_l && p.ep_pseudo();
    let castle = legal.iter().any(|m| m.castle.is_some());
    let promo = legal.iter().any(|m| m.promo.is_some());
    if in_check {
        rep.count("in_check", 1);
        // double check: two distinct attackers => only king moves are legal
        if !legal.is_empty() && legal.iter().all(|m| m.piece == Kind::K) && n_illegal > 0 {
            rep.count("only_king_moves_in_check", 1);
        }
    }
    if ep_l {
        rep.count("ep_legal", 1);
    }
    if ep_x {
        rep.count("ep_pseudo_but_illegal", 1);
    }
    if castle {
        rep.count("castle_legal", 1);
    }
    if p.castle != 0 && !castle && p.wtm && p.castle & (WK | WQ) != 0 || p.castle != 0 && !castle && !p.wtm && p.castle & (BK | BQ) != 0 {
        rep.count("castle_right_but_unavailable", 1);
    }
    if promo {
        rep.count("promotion", 1);
    }
    if legal.is_empty() {
        rep.count(if in_check { "checkmate" } else { "stalemate" }, 1);
    }
    if n_illegal > 0 {
        rep.count("positions_with_rejected_pseudo_moves", 1);
    }
    rep.count("moves_compared", a.len() as u64);
    if n_illegal > 0 || in_check || ep_l || ep_x || castle || promo {
        rep.distinct(p.key_hash());
    }
    true
}

pub fn check_perft(p: &Pos, depth: usize, published: Option<u64>, rep: &mut Report) -> bool {
    let fen = p.fen();
    let st = to_state(p);
    let want = match published {
        Some(w) => w,
        None => p.perft(depth),
    };
    // per-root-move split through the callback as well
    let mut split: Vec<(OMove, u64)> = vec![];
    let got = guard(|| {
        Searcher::new().perft(&st, depth, |_, mv, d, c| {
            if d == 1 {
                split.push((to_omove(mv), c as u64));
            }
        })
    });
    rep.eval(1);
    rep.count("perft_nodes", want);
    match got {
        Err(e) => {
            rep.violation("perft-panic", &format!("perft-panic|{}|{}", fen, depth), &e, json!({"fen": fen, "perft_depth": depth}));
            false
        }
        Ok(g) if g as u64 != want => {
            rep.violation("perft", &format!("perft|{}|{}", fen, depth), &format!("perft({}) = {}, rules say {}", depth, g, want), json!({"fen": fen, "perft_depth": depth}));
            false
        }
        Ok(_) => {
            if depth >= 2 {
                for (m, c) in split.iter() {
                    let w = p.make(m).perft(depth - 1);
                    if *c != w && published.is_none() {
                        rep.violation("perft-split", &format!("perft-split|{}|{}|{}", fen, depth, omove_str(m)), &format!("split count {} vs {}", c, w), json!({"fen": fen, "perft_depth": depth}));
                        return false;
                    }
                }
            }
            true
        }
    }
}

/// `weechess perft --fen F --depth D` output: "<peg>: <count> [<fen>]" lines and "Total nodes: N"
pub fn check_cli_perft(bin: &str, p: &Pos, depth: usize, rep: &mut Report) {
    let fen = p.fen();
    let out = std::process::Command::new(bin).args(["perft", "--fen", &fen, "--depth", &depth.to_string()]).output();
    let Ok(out) = out else {
        rep.inconclusive("could not run the weechess binary for perft");
        return;
    };
    rep.eval(1);
    rep.count("cli_perft_runs", 1);
    let text = String::from_utf8_lossy(&out.stdout).to_string();
    let want = p.perft(depth);
    let total = text.lines().find_map(|l| l.trim().strip_prefix("Total nodes: ").and_then(|r| r.split_whitespace().next().and_then(|n| n.parse::<u64>().ok())));
    if !out.status.success() || total != Some(want) {
        rep.violation("cli-perft", &format!("cli-perft|{}|{}", fen, depth), &format!("status {:?}, total {:?}, rules say {}", out.status.code(), total, want), json!({"fen": fen, "cli_perft_depth": depth}));
        return;
    }
    // split lines: successor FEN in brackets identifies the move
    if depth >= 2 {
        let mut want_split: Vec<(String, u64)> = p.legal_moves().iter().map(|m| {
            let c = p.make(m);
            (c.fen(), c.perft(depth - 1))
        }).collect();
        want_split.sort();
        let mut got_split: Vec<(String, u64)> = vec![];
        for l in text.lines() {
            if let (Some(i), Some(j)) = (l.find('['), l.rfind(']')) {
                let f = l[i + 1..j].to_string();
                let cnt = l[..i].rsplit(':').next().and_then(|s| s.trim().parse::<u64>().ok());
                if let Some(c) = cnt {
                    got_split.push((f, c));
                }
            }
        }
        got_split.sort();
        if got_split != want_split {
            rep.violation("cli-perft-split", &format!("cli-perft-split|{}|{}", fen, depth), "per-move split differs from the rules", json!({"fen": fen, "cli_perft_depth": depth}));
        }
    }
}

pub fn run(ctx: &Ctx, rep: &mut Report) {
    if let Some(path) = &ctx.replay {
        let v: serde_json::Value = serde_json::from_slice(&std::fs::read(path).expect("replay file")).expect("replay json");
        let p = Pos::from_fen(v["fen"].as_str().unwrap()).expect("replay fen");
        if let Some(d) = v.get("perft_depth").and_then(|d| d.as_u64()) {
            check_perft(&p, d as usize, None, rep);
        } else if let (Some(d), Some(bin)) = (v.get("cli_perft_depth").and_then(|d| d.as_u64()), &ctx.bin) {
            check_cli_perft(bin, &p, d as usize, rep);
        } else {
            check_position(&p, false, rep);
            check_position(&p, true, rep);
        }
        return;
    }
    // the oracle validates itself first
    if ctx.shard == 0 {
        if let Err(e) = crate::selftest::oracle_perft(if ctx.thorough() { 5_000_000 } else { 700_000 }) {
            rep.inconclusive(&e);
            return;
        }
        rep.count("oracle_selftest_ok", 1);
    }
    let mut i = 0u64;
    // corpus
    let corpus = gen::corpus();
    for p in corpus.iter() {
        i += 1;
        if ctx.mine(i) {
            check_position(p, false, rep);
            check_position(p, true, rep);
            if p.men() <= 12 || ctx.thorough() {
                let d = if ctx.thorough() { 3 } else { 2 };
                check_perft(p, d, None, rep);
            }
        }
    }
    // published constants through weechess' own perft walk
    for (k, (fen, counts)) in crate::selftest::PERFT.iter().enumerate() {
        if ctx.mine(k as u64) {
            let p = Pos::from_fen(fen).unwrap();
            for (d, want) in counts.iter().enumerate() {
                if *want <= if ctx.thorough() { 5_000_000 } else { 450_000 } {
                    check_perft(&p, d + 1, Some(*want), rep);
                    rep.count("published_perft_constants", 1);
                }
            }
        }
    }
    // CLI
    if let Some(bin) = &ctx.bin {
        for (k, p) in corpus.iter().enumerate() {
            if k % 9 == 0 && ctx.mine((k / 9) as u64) {
                check_cli_perft(bin, p, 2, rep);
            }
        }
    }
    // exhaustive families
    for p in gen::castling_family().iter() {
        i += 1;
        if ctx.mine(i) {
            check_position(p, false, rep);
            rep.count("family_castling", 1);
        }
    }
    let mut rng = gen::shard_rng(ctx.seed, ctx.shard, 1);
    for p in gen::ep_family(&mut rng, ctx.n(100_000, 4_000_000) as usize).iter() {
        check_position(p, rng.gen_bool(0.2), rep);
        rep.count("family_en_passant", 1);
    }
    for p in gen::ep_check_family(&mut rng, ctx.n(40_000, 1_000_000) as usize).iter() {
        check_position(p, false, rep);
        rep.count("family_en_passant_answers_check", 1);
    }
    for p in gen::castle_check_family(&mut rng, ctx.n(10_000, 300_000) as usize).iter() {
        check_position(p, false, rep);
        rep.count("family_castling_gives_check", 1);
    }
    for p in gen::ep_rank_pin_family(&mut rng, ctx.n(5_000, 200_000) as usize).iter() {
        check_position(p, false, rep);
        rep.count("family_en_passant_rank_pin", 1);
    }
    for p in gen::promotion_check_family(&mut rng, ctx.n(10_000, 300_000) as usize).iter() {
        check_position(p, false, rep);
        rep.count("family_promotion", 1);
    }
    // random play and random sampling
    let n_play = ctx.n(1_500_000, 40_000_000);
    let n_sample = ctx.n(1_000_000, 40_000_000);
    let mut done = 0;
    while done < n_play && ctx.time_left() {
        let start = if rng.gen_bool(0.5) { Pos::start() } else { corpus[rng.gen_range(0..corpus.len())].clone() };
        let plies = rng.gen_range(20..200);
        let (game, last) = gen::play(&mut rng, &start, plies);
        for (p, _) in game.iter() {
            if !check_position(p, rng.gen_bool(0.05), rep) {
                break;
            }
            done += 1;
        }
        check_position(&last, false, rep);
        rep.count("play_games", 1);
        if rep.samples.is_empty() {
            rep.sample(json!({"source": "play", "fen": last.fen(), "legal_moves": last.legal_moves().len()}));
        }
        // perft from a random game position
        if let Some((p, _)) = game.get(rng.gen_range(0..game.len().max(1))) {
            check_perft(p, 2, None, rep);
        }
    }
    done = 0;
    while done < n_sample && ctx.time_left() {
        let p = gen::sample(&mut rng);
        check_position(&p, rng.gen_bool(0.1), rep);
        if done % 64 == 0 {
            check_perft(&p, 2, None, rep);
        }
        if rep.samples.len() < 4 && (p.ep_legal() || p.castle != 0) {
            rep.sample(json!({"source": "sample", "fen": p.fen(), "legal_moves": p.legal_moves().len(), "rejected_pseudo_legal": p.illegal_pseudo_moves().len()}));
        }
        done += 1;
    }
    if !ctx.time_left() {
        rep.note("time box reached before the case budget; evidence reports what was reached");
    }
}
