//! C20 — move values carry their attributes (exhaustive over constructor tuples).

use crate::conv::*;
use crate::report::{Ctx, Report};
use crate::util::guard;
use serde_json::json;
use std::collections::HashMap;
use weechess_core::{Color, Move, Piece, PieceIndex, Side, Square};

const KINDS: [Piece; 6] = [Piece::Pawn, Piece::Knight, Piece::Bishop, Piece::Rook, Piece::Queen, Piece::King];
const CAPS: [Option<Piece>; 6] = [None, Some(Piece::Pawn), Some(Piece::Knight), Some(Piece::Bishop), Some(Piece::Rook), Some(Piece::Queen)];
const PROMOS: [Option<Piece>; 5] = [None, Some(Piece::Queen), Some(Piece::Rook), Some(Piece::Bishop), Some(Piece::Knight)];

#[derive(Clone, Copy, PartialEq, Eq, Hash, Debug)]
pub struct Tuple {
    white: bool,
    piece: u8,
    from: u8,
    to: u8,
    capture: u8,
    promo: u8,
    ep: bool,
    castle: u8, // 0 none, 1 king side, 2 queen side
    double: bool,
}

fn pid(p: Option<Piece>) -> u8 {
    p.map(|p| p as u8).unwrap_or(0)
}

fn read(m: &Move) -> Tuple {
    Tuple {
        white: m.color() == Color::White,
        piece: m.piece() as u8,
        from: sq_u8(m.origin()),
        to: sq_u8(m.destination()),
        capture: pid(m.capture()),
        promo: pid(m.promotion()),
        ep: m.is_en_passant(),
        castle: match m.castle_side() {
            None => 0,
            Some(Side::King) => 1,
            Some(Side::Queen) => 2,
        },
        double: m.is_double_pawn(),
    }
}

fn build(white: bool, piece: Piece, from: u8, to: u8, cap: Option<Piece>, promo: Option<Piece>) -> Move {
    let pi = PieceIndex::new(color(white), piece);
    let (f, t): (Square, Square) = (sq(from), sq(to));
    match (cap, promo) {
        (None, None) => Move::by_moving(pi, f, t),
        (Some(c), None) => Move::by_capturing(pi, f, t, c),
        (None, Some(p)) => Move::by_promoting(pi, f, t, p),
        (Some(c), Some(p)) => Move::by_capture_promoting(pi, f, t, c, p),
    }
}

pub struct Acc {
    by_raw: HashMap<u32, Tuple>,
    by_value: HashMap<Move, Tuple>,
}

fn judge(m: Move, want: Tuple, serde_every: u64, n: u64, acc: &mut Acc, rep: &mut Report) -> bool {
    rep.eval(1);
    let sig = format!("{:?}", want);
    let got = match guard(|| read(&m)) {
        Ok(g) => g,
        Err(e) => {
            rep.violation("move-accessor-panic", &format!("move-accessor-panic|{}", sig), &e, json!({"tuple": sig}));
            return false;
        }
    };
    if got != want {
        rep.violation("move-attributes", &format!("move-attributes|{}", sig), &format!("constructed {:?}, accessors report {:?}", want, got), json!({"tuple": sig}));
        return false;
    }
    // derived accessors
    if m.is_capture() != (want.capture != 0) || m.is_promotion() != (want.promo != 0) || m.is_any_castle() != (want.castle != 0)
        || m.is_castle(Side::King) != (want.castle == 1) || m.is_castle(Side::Queen) != (want.castle == 2)
        || m.resulting_piece() as u8 != (if want.promo != 0 { want.promo } else { want.piece })
    {
        rep.violation("move-derived-accessors", &format!("move-derived-accessors|{}", sig), "derived accessor disagrees with the attributes", json!({"tuple": sig}));
        return false;
    }
    // injectivity of the packed value and agreement of == / Hash with tuple equality
    if let Some(prev) = acc.by_raw.insert(m.as_raw(), want) {
        if prev != want {
            rep.violation("move-raw-collision", &format!("move-raw-collision|{}", sig), &format!("{:?} and {:?} share the packed value {:#x}", prev, want, m.as_raw()), json!({"tuple": sig}));
            return false;
        }
    }
    if let Some(prev) = acc.by_value.insert(m, want) {
        if prev != want {
            rep.violation("move-equality", &format!("move-equality|{}", sig), &format!("{:?} == {:?} although attributes differ", prev, want), json!({"tuple": sig}));
            return false;
        }
    }
    let m2 = m;
    if !(m2 == m) {
        rep.violation("move-equality", &format!("move-equality|{}", sig), "a copy is not equal to the original", json!({"tuple": sig}));
        return false;
    }
    if n % serde_every == 0 {
        rep.count("serialisation_round_trips", 1);
        let r = guard(|| {
            let mut buf = Vec::new();
            ciborium::into_writer(&m, &mut buf).map_err(|e| e.to_string())?;
            let back: Move = ciborium::from_reader(&buf[..]).map_err(|e| e.to_string())?;
            Ok::<Move, String>(back)
        });
        match r {
            Ok(Ok(back)) if back == m && read(&back) == want => {}
            Ok(Ok(back)) => {
                rep.violation("move-serialisation", &format!("move-serialisation|{}", sig), &format!("came back as {:?}", read(&back)), json!({"tuple": sig}));
                return false;
            }
            Ok(Err(e)) | Err(e) => {
                rep.violation("move-serialisation", &format!("move-serialisation|{}", sig), &e, json!({"tuple": sig}));
                return false;
            }
        }
    }
    true
}

pub fn run(ctx: &Ctx, rep: &mut Report) {
    // injectivity needs one process to see every tuple: shard 0 does all the work
    if ctx.shard != 0 {
        return;
    }
    let miri = ctx.mode == "miri";
    let serde_every = if ctx.thorough() { 1 } else { 16 };
    let mut acc = Acc { by_raw: HashMap::new(), by_value: HashMap::new() };
    let mut n = 0u64;
    let step = if miri { 1471 } else { 1 }; // Miri: a ~1000-tuple sample
    let mut idx = 0u64;
    'outer: for white in [true, false] {
        for piece in KINDS {
            for from in 0..64u8 {
                for to in 0..64u8 {
                    for cap in CAPS {
                        for promo in PROMOS {
                            idx += 1;
                            if idx % step != 0 {
                                continue;
                            }
                            n += 1;
                            let want = Tuple {
                                white,
                                piece: piece as u8,
                                from,
                                to,
                                capture: pid(cap),
                                promo: pid(promo),
                                ep: false,
                                castle: 0,
                                double: piece == Piece::Pawn && ((from / 8) as i32 - (to / 8) as i32).abs() > 1,
                            };
                            let m = match guard(|| build(white, piece, from, to, cap, promo)) {
                                Ok(m) => m,
                                Err(e) => {
                                    rep.violation("move-constructor-panic", &format!("move-constructor-panic|{:?}", want), &e, json!({"tuple": format!("{:?}", want)}));
                                    continue;
                                }
                            };
                            judge(m, want, serde_every, n, &mut acc, rep);
                            if rep.violation_count > 30 {
                                break 'outer;
                            }
                        }
                    }
                }
            }
        }
    }
    rep.count("constructor_tuples", n);
    // en passant moves: every origin/destination, both colours
    let mut ne = 0;
    for white in [true, false] {
        for from in 0..64u8 {
            for to in 0..64u8 {
                if miri && (from as u64 * 64 + to as u64) % 97 != 0 {
                    continue;
                }
                n += 1;
                ne += 1;
                let want = Tuple { white, piece: Piece::Pawn as u8, from, to, capture: Piece::Pawn as u8, promo: 0, ep: true, castle: 0, double: ((from / 8) as i32 - (to / 8) as i32).abs() > 1 };
                if let Ok(m) = guard(|| Move::by_en_passant(PieceIndex::new(color(white), Piece::Pawn), sq(from), sq(to))) {
                    judge(m, want, 1, n, &mut acc, rep);
                }
            }
        }
    }
    rep.count("en_passant_tuples", ne);
    for (white, side, from, to, code) in [(true, Side::King, 4u8, 6u8, 1u8), (true, Side::Queen, 4, 2, 2), (false, Side::King, 60, 62, 1), (false, Side::Queen, 60, 58, 2)] {
        n += 1;
        let want = Tuple { white, piece: Piece::King as u8, from, to, capture: 0, promo: 0, ep: false, castle: code, double: false };
        if let Ok(m) = guard(|| Move::by_castling(color(white), side)) {
            judge(m, want, 1, n, &mut acc, rep);
            rep.count("castling_moves", 1);
        }
    }
    // every tuple is a distinct case; the count is the number of distinct packed values seen
    rep.distinct_cap = usize::MAX;
    for k in acc.by_raw.keys() {
        rep.distinct(*k as u64);
    }
    rep.sample(json!({"tuple": "white Pawn e7 -> f8, capture Rook, promote Knight", "raw": format!("{:#x}", build(true, Piece::Pawn, 52, 61, Some(Piece::Rook), Some(Piece::Knight)).as_raw())}));
}
