//! C19 — a search is reproducible from its seed (same position, seed, depth, fresh memory,
//! one worker): identical sequences of best lines, evaluations and node counts, in one process
//! and across processes.

use crate::conv::*;
use crate::gen;
use crate::mon::c03;
use crate::oracle::rules::*;
use crate::report::{mix, Ctx, Report};
use crate::scenario::{Scenario, Step};
use crate::srch;
use rand::Rng;
use serde_json::json;
use std::process::Command;
use weechess_engine::eval::Evaluator;
use weechess_engine::searcher::{Searcher, StatusEvent};

/// canonical text of an event stream
fn stream_of(lines: &[(Vec<weechess_core::Move>, weechess_engine::eval::Evaluation)], progress: &[(u32, usize, f32)]) -> String {
    let mut s = String::new();
    for (l, e) in lines {
        s.push_str(&format!("B {:?} {};", e, srch::lan_line(l)));
    }
    for (d, n, sat) in progress {
        s.push_str(&format!("P {} {} {:08x};", d, n, sat.to_bits()));
    }
    s
}

fn hook_stream(fen: &str, depth: usize, seed: u64, hseed: u64, ev: &Evaluator) -> Option<String> {
    hook_stream_with(fen, depth, seed, hseed, ev, Some(1))
}

/// `workers = None` leaves the worker count to the engine's own policy (one worker for the iterations a depth
/// limit <= 3 allows), as the public entry point and the CLI do, without their 1 GiB memory
fn hook_stream_with(fen: &str, depth: usize, seed: u64, hseed: u64, ev: &Evaluator, workers: Option<usize>) -> Option<String> {
    // the memory geometry is derived from the hasher seed: roomy, or small enough for buckets to overflow
    let (tables, buckets) = [(8usize, 1024usize), (8, 1024), (1, 1), (2, 5), (4, 16), (3, 7)][(hseed % 6) as usize];
    let mut step = Step::new(fen, depth, 1, seed);
    step.workers = workers;
    let sc = Scenario { tables, buckets, hasher_seed: hseed, steps: vec![step] };
    let mut out = None;
    sc.run(ev, |_, _, res| {
        if res.out.panic.is_none() {
            out = Some(stream_of(&res.out.lines, &res.out.progress));
        }
        true
    });
    out
}

/// one worker on a memory the engine creates itself (full size), through the synchronous entry
fn own_memory_stream(p: &Pos, depth: usize, seed: u64, ev: &Evaluator) -> Option<String> {
    let out = srch::search(&to_state(p), ev, &srch::Cfg { depth: Some(depth), workers: Some(1), seed }, &weechess_engine::searcher::verif::Cancel::new(), None);
    if out.panic.is_some() {
        return None;
    }
    Some(stream_of(&out.lines, &out.progress))
}

fn public_stream(p: &Pos, depth: usize, seed: u64) -> Option<String> {
    let (h, _tx, rx) = Searcher::new().analyze(to_state(p), seed, Evaluator::default(), Some(depth), None);
    let mut lines = vec![];
    let mut progress = vec![];
    // interleaving of the two event kinds is part of the sequence
    let mut order = String::new();
    while let Ok(e) = rx.recv() {
        match e {
            StatusEvent::BestMove { line, evaluation } => {
                order.push('B');
                lines.push((line, evaluation))
            }
            StatusEvent::Progress { depth, nodes_searched, transposition_saturation } => {
                order.push('P');
                progress.push((depth, nodes_searched, transposition_saturation))
            }
            _ => order.push('W'),
        }
    }
    h.join().ok()?;
    Some(format!("{}|{}", order, stream_of(&lines, &progress)))
}

fn strip_ansi(s: &str) -> String {
    let mut out = String::new();
    let mut it = s.chars().peekable();
    while let Some(c) = it.next() {
        if c == '\u{1b}' {
            while let Some(d) = it.next() {
                if d.is_ascii_alphabetic() {
                    break;
                }
            }
        } else {
            out.push(c);
        }
    }
    out
}

/// `weechess evaluate` output with the wall-clock fields removed
fn cli_stream(bin: &str, fen: &str, depth: usize, seed: u64) -> Option<String> {
    let out = Command::new(bin).args(["evaluate", "--fen", fen, "--max-depth", &depth.to_string(), "--seed", &seed.to_string()]).output().ok()?;
    if !out.status.success() {
        return None;
    }
    let text = strip_ansi(&String::from_utf8_lossy(&out.stdout));
    let mut s = String::new();
    for l in text.lines() {
        let kept: Vec<&str> = l.split_whitespace().filter(|t| !t.starts_with("time=") && !t.starts_with("nps=")).collect();
        s.push_str(&kept.join(" "));
        s.push(';');
    }
    Some(s)
}

pub fn run(ctx: &Ctx, rep: &mut Report) {
    let ev = Evaluator::default();
    let mut rng = gen::shard_rng(ctx.seed, ctx.shard, 19);
    let corpus = gen::corpus();
    // child mode: print the streams of the listed cases (used for the cross-process comparison)
    if ctx.mode == "child" {
        let v: serde_json::Value = serde_json::from_slice(&std::fs::read(ctx.replay.as_ref().unwrap()).unwrap()).unwrap();
        for c in v["cases"].as_array().unwrap() {
            let s = hook_stream(c["fen"].as_str().unwrap(), c["depth"].as_u64().unwrap() as usize, c["seed"].as_u64().unwrap(), c["hseed"].as_u64().unwrap(), &ev).unwrap_or_default();
            println!("STREAM {}", s);
        }
        std::process::exit(0);
    }
    if let Some(path) = &ctx.replay {
        let v: serde_json::Value = serde_json::from_slice(&std::fs::read(path).expect("replay file")).expect("replay json");
        let (fen, depth, seed) = (v["fen"].as_str().unwrap(), v["depth"].as_u64().unwrap() as usize, v["seed"].as_u64().unwrap());
        let hseed = v["hseed"].as_u64().unwrap_or(1);
        for _ in 0..5 {
            let (a, b) = match v["path"].as_str().unwrap_or("hook") {
                "public" => {
                    let p = Pos::from_fen(fen).unwrap();
                    (public_stream(&p, depth, seed), public_stream(&p, depth, seed))
                }
                "cli" => (cli_stream(ctx.bin.as_ref().unwrap(), fen, depth, seed), cli_stream(ctx.bin.as_ref().unwrap(), fen, depth, seed)),
                "own-memory" => {
                    let p = Pos::from_fen(fen).unwrap();
                    (own_memory_stream(&p, depth, seed, &ev), own_memory_stream(&p, depth, seed, &ev))
                }
                "hook-default-workers" => (hook_stream_with(fen, depth, seed, hseed, &ev, None), hook_stream_with(fen, depth, seed, hseed, &ev, None)),
                _ => (hook_stream(fen, depth, seed, hseed, &ev), hook_stream(fen, depth, seed, hseed, &ev)),
            };
            rep.eval(1);
            if a != b {
                rep.violation("not-reproducible", &format!("not-reproducible|replay|{}|d{}", fen, depth), "streams differ", json!({"fen": fen, "depth": depth, "seed": seed, "hseed": hseed, "path": v["path"]}));
                break;
            }
        }
        return;
    }
    // (1) hook path, one worker, fresh small memory, depth <= 6: twice in this process
    let mut n = ctx.n(3_000, 150_000);
    let mut xproc: Vec<(serde_json::Value, String)> = vec![];
    while n > 0 && ctx.time_left() {
        let p = c03::random_root(&mut rng, &corpus);
        let depth = c03::pick_depth(&mut rng, p.men()).max(if p.men() <= 10 { rng.gen_range(1..=6) } else { 1 }).min(if p.men() > 16 { 3 } else { 6 });
        let (seed, hseed): (u64, u64) = (rng.gen(), rng.gen());
        let fen = p.fen();
        if std::env::var("VERIF_TRACE").is_ok() {
            eprintln!("TRACE hook {} d{} t={:.1}", fen, depth, ctx.start.elapsed().as_secs_f64());
        }
        let a = hook_stream(&fen, depth, seed, hseed, &ev);
        let b = hook_stream(&fen, depth, seed, hseed, &ev);
        rep.eval(1);
        rep.count("hook_pairs_in_process", 1);
        n -= 1;
        let (Some(a), Some(b)) = (a, b) else {
            rep.count("panic_left_to_C04", 1);
            continue;
        };
        if a != b {
            rep.violation("not-reproducible", &format!("not-reproducible|hook|{}|d{}", fen, depth), &format!("two runs with seed {} differ:\n{}\n{}", seed, a, b), json!({"fen": fen, "depth": depth, "seed": seed, "hseed": hseed, "path": "hook"}));
            continue;
        }
        // a different seed normally gives a different stream: the comparison is not vacuous
        if rng.gen_bool(0.1) {
            if let Some(c) = hook_stream(&fen, depth, seed ^ 0x5555, hseed, &ev) {
                rep.count("other_seed_runs", 1);
                if c != a {
                    rep.count("other_seed_gave_a_different_stream", 1);
                }
            }
        }
        rep.distinct(mix(p.key_hash(), depth as u64 * 977 + (seed & 0xffff)));
        rep.max("deepest_depth_compared", depth as u64);
        if xproc.len() < 40 {
            xproc.push((json!({"fen": fen, "depth": depth, "seed": seed, "hseed": hseed}), a.clone()));
        }
        if rep.samples.len() < 2 {
            rep.sample(json!({"fen": fen, "depth": depth, "seed": seed, "stream": a.chars().take(300).collect::<String>()}));
        }
    }
    // (1b) hook path with the engine's own worker policy, depth limit <= 3 (the configuration of the public entry
    // point and of `weechess evaluate --max-depth <= 3`), mostly on wide positions
    let mut n = ctx.n(1_200, 60_000);
    while n > 0 && ctx.time_left() {
        let p = if rng.gen_bool(0.5) {
            let q = gen::sample(&mut rng);
            if q.legal_moves().len() < 30 || gen::q_cost(&q, 300_000) >= 300_000 {
                continue;
            }
            q
        } else {
            c03::random_root(&mut rng, &corpus)
        };
        let depth = [1usize, 2, 3, 3, 3][rng.gen_range(0..5)];
        let (seed, hseed): (u64, u64) = (rng.gen(), rng.gen::<u64>() / 6 * 6 + rng.gen_range(0..2));
        let fen = p.fen();
        let a = hook_stream_with(&fen, depth, seed, hseed, &ev, None);
        let b = hook_stream_with(&fen, depth, seed, hseed, &ev, None);
        rep.eval(1);
        rep.count("hook_pairs_with_default_worker_policy", 1);
        n -= 1;
        let (Some(a), Some(b)) = (a, b) else {
            rep.count("panic_left_to_C04", 1);
            continue;
        };
        if a != b {
            rep.violation("not-reproducible", &format!("not-reproducible|hook-default-workers|{}|d{}", fen, depth), &format!("two runs with seed {} and the default worker policy differ:\n{}\n{}", seed, a, b), json!({"fen": fen, "depth": depth, "seed": seed, "hseed": hseed, "path": "hook-default-workers"}));
            continue;
        }
        rep.max("most_legal_moves_at_a_default_policy_root", p.legal_moves().len() as u64);
        rep.distinct(mix(p.key_hash(), 7_000_000 + depth as u64));
    }
    // (2) the same cases in two fresh processes of this harness
    if !xproc.is_empty() {
        let dir = std::env::temp_dir();
        let f = dir.join(format!("wv-c19-{}-{}.json", std::process::id(), ctx.shard));
        std::fs::write(&f, serde_json::to_vec(&json!({"cases": xproc.iter().map(|c| c.0.clone()).collect::<Vec<_>>()})).unwrap()).unwrap();
        let exe = std::env::current_exe().unwrap();
        for _ in 0..2 {
            let out = Command::new(&exe).args(["C19", "--mode", "child", "--replay", f.to_str().unwrap()]).output();
            let Ok(out) = out else {
                rep.inconclusive("could not start the child process for the cross-process comparison");
                break;
            };
            let streams: Vec<String> = String::from_utf8_lossy(&out.stdout).lines().filter_map(|l| l.strip_prefix("STREAM ").map(|s| s.to_string())).collect();
            if streams.len() != xproc.len() {
                rep.inconclusive("child process returned a different number of streams");
                break;
            }
            for (i, s) in streams.iter().enumerate() {
                rep.eval(1);
                rep.count("hook_pairs_across_processes", 1);
                if *s != xproc[i].1 {
                    rep.violation("not-reproducible", &format!("not-reproducible|xproc|{}|d{}", xproc[i].0["fen"].as_str().unwrap(), xproc[i].0["depth"]), "a fresh process gives a different stream", {
                        let mut v = xproc[i].0.clone();
                        v["path"] = json!("hook");
                        v
                    });
                }
            }
        }
        let _ = std::fs::remove_file(&f);
    }
    // (1c) one worker, depth limit 4-5, on a memory the engine creates itself (1 GiB: a few pairs per shard)
    for _ in 0..(if ctx.thorough() { 12 } else { 2 }) {
        if !ctx.time_left() {
            break;
        }
        let p = c03::random_root(&mut rng, &corpus);
        let depth = if p.men() > 16 { 4 } else { rng.gen_range(4..=5) };
        let seed: u64 = rng.gen();
        let (a, b) = (own_memory_stream(&p, depth, seed, &ev), own_memory_stream(&p, depth, seed, &ev));
        rep.eval(1);
        rep.count("own_memory_pairs_one_worker", 1);
        if a.is_none() || b.is_none() {
            rep.count("panic_left_to_C04", 1);
        } else if a != b {
            rep.violation("not-reproducible", &format!("not-reproducible|own-memory|{}|d{}", p.fen(), depth), &format!("one worker, engine-created memory, seed {}:\n{:?}\n{:?}", seed, a, b), json!({"fen": p.fen(), "depth": depth, "seed": seed, "path": "own-memory"}));
        } else {
            rep.distinct(mix(p.key_hash(), 6_000_000 + depth as u64));
        }
    }
    // (3) public entry point (full-size table), depth <= 3, twice in this process
    let k = if ctx.thorough() { 20 } else { 1 };
    for _ in 0..k {
        if !ctx.time_left() {
            break;
        }
        let p = c03::random_root(&mut rng, &corpus);
        let depth = rng.gen_range(1..=3);
        let seed: u64 = rng.gen();
        if std::env::var("VERIF_TRACE").is_ok() {
            eprintln!("TRACE public {} d{} t={:.1}", p.fen(), depth, ctx.start.elapsed().as_secs_f64());
        }
        let (a, b) = (public_stream(&p, depth, seed), public_stream(&p, depth, seed));
        rep.eval(1);
        rep.count("public_pairs_in_process", 1);
        if a.is_none() || b.is_none() {
            rep.count("panic_left_to_C04", 1);
        } else if a != b {
            rep.violation("not-reproducible", &format!("not-reproducible|public|{}|d{}", p.fen(), depth), &format!("{:?}\n{:?}", a, b), json!({"fen": p.fen(), "depth": depth, "seed": seed, "path": "public"}));
        } else {
            rep.distinct(mix(p.key_hash(), 5_000_000 + depth as u64));
        }
    }
    // (4) the shipped binary: `weechess evaluate --seed S --max-depth d --fen F`, two processes
    if let Some(bin) = &ctx.bin {
        let k = if ctx.thorough() { 16 } else { 2 };
        for i in 0..k {
            if !ctx.time_left() {
                break;
            }
            // every other pair starts from an early opening position (whatever the engine keeps for such positions
            // - an opening book, say - must not make the answer depend on the process)
            let p = if i % 2 == 1 {
                let lines: [&[&str]; 10] = [&[], &["e2e4"], &["d2d4"], &["e2e4", "e7e5"], &["e2e4", "c7c5"], &["d2d4", "g8f6"], &["d2d4", "d7d5"], &["g1f3"], &["c2c4"], &["e2e4", "e7e5", "g1f3"]];
                let mut q = Pos::start();
                for l in lines[rng.gen_range(0..lines.len())] {
                    let m = q.legal_moves().into_iter().find(|o| Pos::lan(o) == *l).expect("opening move");
                    q = q.make(&m);
                }
                rep.count("cli_pairs_on_opening_positions", 1);
                q
            } else {
                c03::random_root(&mut rng, &corpus)
            };
            let depth = rng.gen_range(1..=3);
            let seed: u64 = rng.gen();
            if std::env::var("VERIF_TRACE").is_ok() {
                eprintln!("TRACE cli {} d{} t={:.1}", p.fen(), depth, ctx.start.elapsed().as_secs_f64());
            }
            let (a, b) = (cli_stream(bin, &p.fen(), depth, seed), cli_stream(bin, &p.fen(), depth, seed));
            rep.eval(1);
            rep.count("cli_pairs_across_processes", 1);
            match (a, b) {
                (Some(a), Some(b)) if a == b && a.contains("Best Move") => {
                    rep.distinct(mix(p.key_hash(), 9_000_000 + depth as u64));
                    if rep.samples.len() < 3 {
                        rep.sample(json!({"cli": format!("evaluate --seed {} --max-depth {} --fen '{}'", seed, depth, p.fen()), "output_without_clock_fields": a.chars().take(300).collect::<String>()}));
                    }
                }
                (Some(a), Some(b)) if a == b => rep.inconclusive(&format!("weechess evaluate printed no best move for {}", p.fen())),
                (Some(a), Some(b)) => rep.violation("not-reproducible", &format!("not-reproducible|cli|{}|d{}", p.fen(), depth), &format!("{}\n{}", a, b), json!({"fen": p.fen(), "depth": depth, "seed": seed, "path": "cli"})),
                _ => rep.inconclusive("weechess evaluate failed to run"),
            }
        }
    }
}
