//! C08 — the position hash depends on, and separates, everything rule-relevant.

use crate::conv::*;
use crate::gen;
use crate::oracle::rules::*;
use crate::report::{mix, Ctx, Report};
use crate::util::guard;
use rand::{seq::SliceRandom, Rng, SeedableRng};
use serde_json::json;
use std::collections::HashMap;
use weechess_core::{
    notation::{into_notation, try_from_notation, Fen},
    MoveQuery, State, ZobristHasher,
};

pub struct Hashers(pub Vec<(u64, ZobristHasher)>);

impl Hashers {
    pub fn new(seed: u64, n: usize) -> Self {
        Hashers((0..n as u64).map(|i| {
            let s = seed.wrapping_mul(1000).wrapping_add(i);
            (s, ZobristHasher::with(&mut rand_chacha::ChaCha8Rng::seed_from_u64(s)))
        }).collect())
    }
}

/// must-equal key: placement, side, rights, en-passant target
fn eq_key(p: &Pos) -> ([i8; 64], bool, u8, Option<u8>) {
    (p.b, p.wtm, p.castle, p.ep)
}

/// must-differ key: placement, side, rights, *legally available* en-passant capture
fn ne_key(p: &Pos) -> ([i8; 64], bool, u8, Option<u8>) {
    p.key()
}

fn hash(h: &ZobristHasher, s: &State) -> Result<u64, String> {
    guard(|| h.hash(s))
}

fn must_equal(hs: &Hashers, a: (&Pos, &State), b: (&Pos, &State), why: &str, rep: &mut Report) -> bool {
    debug_assert!(eq_key(a.0) == eq_key(b.0));
    for (seed, h) in hs.0.iter() {
        rep.eval(1);
        match (hash(h, a.1), hash(h, b.1)) {
            (Ok(x), Ok(y)) if x == y => {}
            (Ok(x), Ok(y)) => {
                rep.violation("hash-unequal", &format!("hash-unequal|{}|{}|{}", why, a.0.fen(), b.0.fen()), &format!("same position ({}) hashes {:#x} vs {:#x} with hasher seed {}", why, x, y, seed), json!({"fen": a.0.fen(), "fen2": b.0.fen(), "expect": "equal"}));
                return false;
            }
            (Err(e), _) | (_, Err(e)) => {
                rep.violation("hash-panic", &format!("hash-panic|{}", a.0.fen()), &e, json!({"fen": a.0.fen(), "fen2": b.0.fen(), "expect": "equal"}));
                return false;
            }
        }
    }
    rep.count(&format!("equal_pairs_{}", why), 1);
    true
}

fn must_differ(hs: &Hashers, a: &Pos, b: &Pos, why: &str, rep: &mut Report) -> bool {
    debug_assert!(ne_key(a) != ne_key(b));
    let (sa, sb) = (to_state(a), to_state(b));
    for (seed, h) in hs.0.iter() {
        rep.eval(1);
        match (hash(h, &sa), hash(h, &sb)) {
            (Ok(x), Ok(y)) if x != y => {}
            (Ok(x), Ok(_)) => {
                // the signature names the component, not the hasher seed
                rep.violation("hash-collision", &format!("hash-collision|{}|{}|{}", why, a.fen(), b.fen()), &format!("positions differing in {} both hash {:#x} (hasher seed {})", why, x, seed), json!({"fen": a.fen(), "fen2": b.fen(), "expect": "different"}));
                return false;
            }
            (Err(e), _) | (_, Err(e)) => {
                rep.violation("hash-panic", &format!("hash-panic|{}", a.fen()), &e, json!({"fen": a.fen(), "fen2": b.fen(), "expect": "different"}));
                return false;
            }
        }
    }
    rep.count(&format!("different_pairs_{}", why), 1);
    rep.distinct(mix(a.key_hash(), b.key_hash()));
    true
}

/// all one-component variants of a legal position
pub fn variants(p: &Pos, rng: &mut gen::R, hs: &Hashers, rep: &mut Report) {
    // counters
    let mut q = p.clone();
    q.half = rng.gen_range(0..100);
    q.full = rng.gen_range(1..300);
    must_equal(hs, (p, &to_state(p)), (&q, &to_state(&q)), "counters", rep);
    // FEN round trip and clone
    let st = to_state(p);
    let fen = into_notation::<_, Fen>(&st).to_string();
    if let Ok(Ok(rt)) = guard(|| try_from_notation::<State, Fen>(&fen)) {
        if eq_key(&to_pos(&rt)) == eq_key(p) {
            must_equal(hs, (p, &st), (p, &rt), "fen_round_trip", rep);
        }
    }
    // "for all hasher seeds" also means: a hasher is a function of its seed alone. One hasher variable is seeded,
    // used on this position, re-seeded in place and used again: the second value must be what a long-lived hasher
    // of that seed gives (nothing remembered from the first seed, or tied to the object's address, may leak in)
    if hs.0.len() >= 2 && rng.gen_bool(0.05) {
        use rand::SeedableRng;
        let (sa, sb) = (hs.0[0].0, hs.0[1].0);
        let mut h = ZobristHasher::with(&mut rand_chacha::ChaCha8Rng::seed_from_u64(sa));
        let first = hash(&h, &st);
        h = ZobristHasher::with(&mut rand_chacha::ChaCha8Rng::seed_from_u64(sb));
        let second = hash(&h, &st);
        // the same hasher, another placement in between, the same position again
        let _ = hash(&h, &to_state(&Pos::start()));
        let third = hash(&h, &st);
        rep.eval(1);
        rep.count("reseeded_in_place_checks", 1);
        if let (Ok(_), Ok(b), Ok(c), Ok(b0)) = (first, second, third, hash(&hs.0[1].1, &st)) {
            if b != c {
                rep.violation("hash-unequal", &format!("hash-unequal|reseeded|{}", p.fen()), &format!("one hasher (seeded {}, then re-seeded {} in place) hashes {} to {:#x} and, after hashing another position, to {:#x}; a long-lived hasher of seed {} gives {:#x}", sa, sb, p.fen(), b, c, sb, b0), json!({"fen": p.fen(), "fen2": p.fen(), "expect": "equal"}));
            }
        }
    }
    // a clone taken after attack maps were queried
    let _ = st.board().colored_attacks(color(true));
    let cl = st.clone();
    must_equal(hs, (p, &st), (p, &cl), "clone", rep);

    // placement: move / remove / change kind / recolour one man
    let occupied: Vec<usize> = (0..64).filter(|&s| p.b[s] != 0).collect();
    for _ in 0..4 {
        let s = *occupied.choose(rng).unwrap();
        let mut q = p.clone();
        q.ep = None;
        let mut base = p.clone();
        base.ep = None;
        let why;
        match rng.gen_range(0..4) {
            0 => {
                let t = rng.gen_range(0..64usize);
                if q.b[t] != 0 {
                    continue;
                }
                q.b[t] = q.b[s];
                q.b[s] = 0;
                why = "placement_moved";
            }
            1 => {
                if q.b[s].abs() == 6 {
                    continue;
                }
                q.b[s] = 0;
                why = "placement_removed";
            }
            2 => {
                if q.b[s].abs() == 6 {
                    continue;
                }
                let k = rng.gen_range(1..6i8);
                if k == q.b[s].abs() {
                    continue;
                }
                q.b[s] = k * q.b[s].signum();
                why = "placement_kind";
            }
            _ => {
                if q.b[s].abs() == 6 {
                    continue;
                }
                q.b[s] = -q.b[s];
                why = "placement_colour";
            }
        }
        // rights must stay consistent with the new placement
        for (bit, ksq, rsq, k, r) in [(WK, 4usize, 7usize, 6i8, 4i8), (WQ, 4, 0, 6, 4), (BK, 60, 63, -6, -4), (BQ, 60, 56, -6, -4)] {
            if q.castle & bit != 0 && (q.b[ksq] != k || q.b[rsq] != r) {
                q.castle &= !bit;
                base.castle &= !bit;
            }
        }
        if q.is_legal_position() && base.is_legal_position() && q.b != base.b {
            // only the placement may differ between the two
            if q.castle == base.castle {
                must_differ(hs, &base, &q, why, rep);
            }
        }
    }
    // side to move
    let mut q = p.clone();
    q.wtm = !p.wtm;
    q.ep = None;
    let mut base = p.clone();
    base.ep = None;
    if q.is_legal_position() {
        must_differ(hs, &base, &q, "side_to_move", rep);
    }
    // castling rights: every pair of distinct subsets of the rights the placement allows
    let mut allowed = 0u8;
    for (bit, ksq, rsq, k, r) in [(WK, 4usize, 7usize, 6i8, 4i8), (WQ, 4, 0, 6, 4), (BK, 60, 63, -6, -4), (BQ, 60, 56, -6, -4)] {
        if p.b[ksq] == k && p.b[rsq] == r {
            allowed |= bit;
        }
    }
    if allowed != 0 {
        let subsets: Vec<u8> = (0..16u8).filter(|s| s & !allowed == 0).collect();
        for (i, a) in subsets.iter().enumerate() {
            for b in subsets.iter().skip(i + 1) {
                if subsets.len() > 4 && !rng.gen_bool(0.25) {
                    continue;
                }
                let (mut pa, mut pb) = (p.clone(), p.clone());
                pa.castle = *a;
                pb.castle = *b;
                must_differ(hs, &pa, &pb, if (a ^ b).count_ones() == 1 { "one_castling_right" } else { "castling_rights" }, rep);
            }
        }
    }
    // en passant: legally capturable target vs none, and two different capturable files
    if p.ep_legal() {
        let mut q = p.clone();
        q.ep = None;
        must_differ(hs, p, &q, "en_passant_available", rep);
    }
    let (pawn_r, ep_r, from_r, pawn) = if p.wtm { (4, 5, 6, -1i8) } else { (3, 2, 1, 1i8) };
    let mut legal_targets = vec![];
    for f in 0..8 {
        if p.b[at(f, pawn_r).unwrap() as usize] == pawn && p.b[at(f, ep_r).unwrap() as usize] == 0 && p.b[at(f, from_r).unwrap() as usize] == 0 {
            let mut q = p.clone();
            q.ep = at(f, ep_r);
            if q.is_legal_position() && q.ep_legal() {
                legal_targets.push(q);
            }
        }
    }
    if legal_targets.len() >= 2 {
        must_differ(hs, &legal_targets[0], &legal_targets[1], "en_passant_file", rep);
    }
    for q in legal_targets.iter() {
        let mut none = q.clone();
        none.ep = None;
        must_differ(hs, q, &none, "en_passant_available", rep);
    }
}

/// Cross-component aliasing: all positions obtained from one base by ONE substitution (a man put on an
/// empty square, the side flipped, one castling right added, one legal en-passant target added) are
/// pairwise rule-different, so all their hashes must be pairwise different. One-component pairs against
/// the base cannot see a key shared between two components (e.g. the en-passant key of a square equal
/// to the key of a pawn on that square); this can.
pub fn substitution_family(base: &Pos, hs: &Hashers, rep: &mut Report) {
    let mut fam: Vec<(String, Pos)> = vec![];
    let mut b0 = base.clone();
    b0.ep = None;
    // men on empty squares: every kind and colour on every empty square (kept when legal)
    for s in 0..64usize {
        if b0.b[s] != 0 {
            continue;
        }
        for v in [1i8, 2, 3, 4, 5, -1, -2, -3, -4, -5] {
            if v.abs() == 1 && (s < 8 || s >= 56) {
                continue;
            }
            let mut q = b0.clone();
            q.b[s] = v;
            if q.is_legal_position() {
                fam.push((format!("man {} on {}", v, sq_name(s as u8)), q));
            }
        }
    }
    // side flipped
    let mut q = b0.clone();
    q.wtm = !q.wtm;
    if q.is_legal_position() {
        fam.push(("side".into(), q));
    }
    // one more castling right
    for (bit, ksq, rsq, k, r) in [(WK, 4usize, 7usize, 6i8, 4i8), (WQ, 4, 0, 6, 4), (BK, 60, 63, -6, -4), (BQ, 60, 56, -6, -4)] {
        if b0.castle & bit == 0 && b0.b[ksq] == k && b0.b[rsq] == r {
            let mut q = b0.clone();
            q.castle |= bit;
            fam.push((format!("right {}", bit), q));
        }
    }
    // one legally capturable en-passant target
    let (pawn_r, ep_r, from_r, pawn) = if b0.wtm { (4, 5, 6, -1i8) } else { (3, 2, 1, 1i8) };
    for f in 0..8 {
        if b0.b[at(f, pawn_r).unwrap() as usize] == pawn && b0.b[at(f, ep_r).unwrap() as usize] == 0 && b0.b[at(f, from_r).unwrap() as usize] == 0 {
            let mut q = b0.clone();
            q.ep = at(f, ep_r);
            if q.is_legal_position() && q.ep_legal() {
                fam.push((format!("ep {}", sq_name(q.ep.unwrap())), q));
            }
        }
    }
    if fam.iter().any(|(w, _)| w.starts_with("ep")) {
        rep.count("substitution_families_with_en_passant", 1);
    }
    rep.count("substitution_families", 1);
    for (seed, h) in hs.0.iter().take(2) {
        let mut seen: HashMap<u64, usize> = HashMap::new();
        for (i, (what, q)) in fam.iter().enumerate() {
            let Ok(x) = hash(h, &to_state(q)) else { continue };
            rep.eval(1);
            if let Some(j) = seen.insert(x, i) {
                let (w2, q2) = &fam[j];
                rep.violation("hash-collision", &format!("hash-collision|substitutions|{}|{}", q2.fen(), q.fen()), &format!("two different single substitutions on {} ({} / {}) hash equal {:#x} (hasher seed {})", b0.fen(), w2, what, x, seed), json!({"fen": q2.fen(), "fen2": q.fen(), "expect": "different"}));
                return;
            }
        }
    }
    rep.distinct(mix(b0.key_hash(), 0x5b));
}

/// transpositions: the same moves in a different order, played through weechess itself
fn transpositions(start: &Pos, rng: &mut gen::R, hs: &Hashers, rep: &mut Report) {
    let mut seq: Vec<OMove> = vec![];
    let mut pos = start.clone();
    for _ in 0..4 {
        let legal = pos.legal_moves();
        if legal.is_empty() {
            return;
        }
        // quiet piece moves transpose most often
        let quiet: Vec<OMove> = legal.iter().copied().filter(|m| m.capture.is_none() && m.piece != Kind::P && m.castle.is_none()).collect();
        let m = if !quiet.is_empty() && rng.gen_bool(0.8) { *quiet.choose(rng).unwrap() } else { *legal.choose(rng).unwrap() };
        pos = pos.make(&m);
        seq.push(m);
    }
    let orders: [[usize; 4]; 3] = [[2, 1, 0, 3], [0, 3, 2, 1], [2, 3, 0, 1]];
    let q = |m: &OMove| {
        let mut q = MoveQuery::by_moving_from_to(sq(m.from), sq(m.to));
        if let Some(p) = m.promo {
            q.set_promotion(piece_of(p));
        }
        q
    };
    let s0 = to_state(start);
    let Ok(Ok(sa)) = guard(|| State::by_performing_moves(&s0, &seq.iter().map(q).collect::<Vec<_>>())) else { return };
    for o in orders {
        // is the permuted order legal for the oracle, and does it reach the same position?
        let mut p2 = start.clone();
        let mut ok = true;
        let mut qs = vec![];
        for i in o {
            let m = seq[i];
            match p2.legal_moves().into_iter().find(|x| x.from == m.from && x.to == m.to && x.promo == m.promo) {
                Some(x) => {
                    p2 = p2.make(&x);
                    qs.push(q(&x));
                }
                None => {
                    ok = false;
                    break;
                }
            }
        }
        if !ok || eq_key(&p2) != eq_key(&pos) {
            continue;
        }
        if let Ok(Ok(sb)) = guard(|| State::by_performing_moves(&s0, &qs)) {
            if eq_key(&to_pos(&sa)) == eq_key(&pos) && eq_key(&to_pos(&sb)) == eq_key(&p2) {
                must_equal(hs, (&pos, &sa), (&p2, &sb), "transposition", rep);
                rep.distinct(mix(pos.key_hash(), o[0] as u64 * 7 + o[1] as u64));
            }
        }
    }
}

pub fn run(ctx: &Ctx, rep: &mut Report) {
    let hs = Hashers::new(ctx.seed, if ctx.thorough() { 64 } else { 4 });
    let mut rng = gen::shard_rng(ctx.seed, ctx.shard, 8);
    if let Some(path) = &ctx.replay {
        let v: serde_json::Value = serde_json::from_slice(&std::fs::read(path).expect("replay file")).expect("replay json");
        let a = Pos::from_fen(v["fen"].as_str().unwrap()).expect("replay fen");
        let b = Pos::from_fen(v["fen2"].as_str().unwrap()).expect("replay fen2");
        if v["expect"] == "different" {
            must_differ(&hs, &a, &b, "replay", rep);
        } else {
            must_equal(&hs, (&a, &to_state(&a)), (&b, &to_state(&b)), "replay", rep);
        }
        return;
    }
    let corpus = gen::corpus();
    for (i, p) in corpus.iter().enumerate() {
        if ctx.mine(i as u64) {
            variants(p, &mut rng, &hs, rep);
        }
    }
    // chance collisions over everything seen: hash -> must-differ key (first hasher only)
    let mut seen: HashMap<u64, ([i8; 64], bool, u8, Option<u8>)> = HashMap::new();
    let mut by_key: HashMap<([i8; 64], bool, u8, Option<u8>), u64> = HashMap::new();
    let h0 = &hs.0[0].1;
    let mut observe = |p: &Pos, st: &State, rep: &mut Report| {
        let Ok(h) = hash(h0, st) else { return };
        rep.eval(1);
        if let Some(k) = seen.get(&h) {
            if *k != ne_key(p) && (k.0 != p.b || k.1 != p.wtm || k.2 != p.castle) {
                let other = Pos { b: k.0, wtm: k.1, castle: k.2, ep: k.3, half: 0, full: 1 };
                rep.violation("hash-collision", &format!("hash-collision|global|{}|{}", other.fen(), p.fen()), &format!("two rule-different positions hash {:#x}", h), json!({"fen": other.fen(), "fen2": p.fen(), "expect": "different"}));
            }
        } else if seen.len() < 3_000_000 {
            seen.insert(h, ne_key(p));
        }
        // repeated positions reached by different histories must hash equal
        if let Some(prev) = by_key.get(&eq_key(p)) {
            rep.count("recurrences_checked", 1);
            if *prev != h {
                rep.violation("hash-unequal", &format!("hash-unequal|recurrence|{}", p.fen()), "the same position reached twice hashes differently", json!({"fen": p.fen(), "fen2": p.fen(), "expect": "equal"}));
            }
        } else if by_key.len() < 1_000_000 {
            by_key.insert(eq_key(p), h);
        }
    };
    let mut n = ctx.n(60_000, 3_000_000);
    while n > 0 && ctx.time_left() {
        let start = if rng.gen_bool(0.5) { Pos::start() } else { corpus[rng.gen_range(0..corpus.len())].clone() };
        let plies = rng.gen_range(10..160);
        // play through weechess' own successors so that "however reached" is exercised
        let mut pos = start.clone();
        let mut st = to_state(&start);
        for _ in 0..plies {
            observe(&pos, &st, rep);
            if rng.gen_bool(0.25) {
                variants(&pos, &mut rng, &hs, rep);
            }
            if rng.gen_bool(0.1) {
                transpositions(&pos, &mut rng, &hs, rep);
            }
            n = n.saturating_sub(1);
            let legal = pos.legal_moves();
            if legal.is_empty() {
                break;
            }
            let m = gen::pick_move(&mut rng, &pos, &legal);
            let mut q = MoveQuery::by_moving_from_to(sq(m.from), sq(m.to));
            if let Some(k) = m.promo {
                q.set_promotion(piece_of(k));
            }
            let Ok(Ok(ns)) = guard(|| State::by_performing_moves(&st, &[q])) else { break };
            pos = pos.make(&m);
            if to_pos(&ns) != pos {
                // a successor defect is C02's business
                rep.count("successor_mismatch_skipped", 1);
                break;
            }
            // state reached by play vs state constructed from fields
            if rng.gen_bool(0.1) {
                must_equal(&hs, (&pos, &ns), (&pos, &to_state(&pos)), "reached_vs_constructed", rep);
            }
            st = ns;
        }
    }
    let mut n = ctx.n(60_000, 3_000_000);
    while n > 0 && ctx.time_left() {
        let p = gen::sample(&mut rng);
        observe(&p, &to_state(&p), rep);
        variants(&p, &mut rng, &hs, rep);
        n -= 1;
        if rep.samples.len() < 3 && p.castle != 0 {
            let mut q = p.clone();
            q.castle &= q.castle - 1;
            rep.sample(json!({"pair": [p.fen(), q.fen()], "expect": "different (one castling right)"}));
        }
    }
    for p in gen::ep_family(&mut rng, ctx.n(10_000, 500_000) as usize).iter() {
        variants(p, &mut rng, &hs, rep);
    }
    // en passant as the answer to a check by the pawn that just double-stepped
    for p in gen::ep_check_family(&mut rng, ctx.n(6_000, 300_000) as usize).iter() {
        variants(p, &mut rng, &hs, rep);
        rep.count("ep_answers_check_positions", 1);
    }
    // cross-component aliasing on sparse bases (few men: many empty squares to substitute on)
    let mut n = ctx.n(1_500, 60_000);
    for p in gen::ep_family(&mut rng, n as usize).iter() {
        if p.men() <= 10 {
            substitution_family(p, &hs, rep);
        }
    }
    while n > 0 && ctx.time_left() {
        let p = gen::sample(&mut rng);
        if p.men() <= 12 {
            substitution_family(&p, &hs, rep);
            n -= 1;
        }
    }
    rep.count("hasher_seeds", hs.0.len() as u64);
}
