//! C02 — applying a move yields the correct successor; coordinate selection applies the same
//! move; non-legal coordinates are rejected.

use crate::conv::*;
use crate::gen;
use crate::oracle::rules::*;
use crate::report::{mix, Ctx, Report};
use crate::util::guard;
use rand::Rng;
use serde_json::json;
use weechess_core::{MoveGenerator, MoveQuery, State};

fn query_of(m: &OMove) -> MoveQuery {
    let mut q = MoveQuery::by_moving_from_to(sq(m.from), sq(m.to));
    if let Some(p) = m.promo {
        q.set_promotion(piece_of(p));
    }
    q
}

fn move_hash(m: &OMove) -> u64 {
    (m.from as u64) | (m.to as u64) << 8 | (m.promo.map(|p| p as u64).unwrap_or(0)) << 16
}

fn special(p: &Pos, m: &OMove) -> bool {
    m.capture.is_some() || m.castle.is_some() || m.ep || m.promo.is_some() || m.double
        || (p.castle != 0 && (m.piece == Kind::K || m.piece == Kind::R))
        || p.half > 90
}

pub fn diff(a: &Pos, b: &Pos) -> String {
    let mut d = vec![];
    if a.b != b.b {
        d.push("placement");
    }
    if a.wtm != b.wtm {
        d.push("side");
    }
    if a.castle != b.castle {
        d.push("castling-rights");
    }
    if a.ep != b.ep {
        d.push("en-passant-target");
    }
    if a.half != b.half {
        d.push("halfmove-clock");
    }
    if a.full != b.full {
        d.push("fullmove-number");
    }
    d.join(",")
}

/// Judge all successors of one position. `st` must describe `p`.
pub fn check_position(p: &Pos, st: &State, rng: &mut gen::R, rep: &mut Report) -> bool {
    let fen = p.fen();
    let legal = p.legal_moves();
    let got = match guard(|| MoveGenerator::compute_legal_moves(st)) {
        Ok(g) => g,
        Err(e) => {
            rep.violation("movegen-panic", &format!("movegen-panic|{}", fen), &e, json!({"fen": fen}));
            return false;
        }
    };
    let mut ok = true;
    for mr in got.moves() {
        let wm = to_omove(&mr.0);
        let Some(om) = legal.iter().find(|m| m.from == wm.from && m.to == wm.to && m.promo == wm.promo) else {
            rep.count("moves_not_in_oracle_set_skipped", 1);
            continue;
        };
        let want = p.make(om);
        let have = to_pos(&mr.1);
        rep.eval(1);
        if have != want {
            rep.violation(
                "successor",
                &format!("successor|{}|{}", fen, Pos::lan(om)),
                &format!("after {} fields differ: {}; weechess {} vs rules {}", omove_str(om), diff(&have, &want), have.fen(), want.fen()),
                json!({"fen": fen}),
            );
            ok = false;
            continue;
        }
        if special(p, om) {
            rep.distinct(mix(p.key_hash(), move_hash(om)));
        }
        if om.castle.is_some() {
            rep.count("castle_moves", 1);
        }
        if om.ep {
            rep.count("en_passant_moves", 1);
        }
        if om.promo.is_some() {
            rep.count("promotion_moves", 1);
        }
        if om.double {
            rep.count("double_steps", 1);
        }
        if want.castle != p.castle {
            rep.count("moves_changing_castling_rights", 1);
            if om.capture == Some(Kind::R) && om.piece != Kind::K && om.piece != Kind::R {
                rep.count("rights_lost_by_rook_capture_on_corner", 1);
            }
        }
    }
    if !ok {
        return false;
    }
    // coordinate selection: a sample of the legal moves, every promotion
    for om in legal.iter() {
        if om.promo.is_none() && !rng.gen_bool(0.25) {
            continue;
        }
        let want = p.make(om);
        rep.eval(1);
        rep.count("coordinate_selections", 1);
        match guard(|| State::by_performing_moves(st, &[query_of(om)])) {
            Ok(Ok(ns)) => {
                let have = to_pos(&ns);
                if have != want {
                    rep.violation("coordinate-successor", &format!("coordinate-successor|{}|{}", fen, Pos::lan(om)), &format!("{} vs {} ({})", have.fen(), want.fen(), diff(&have, &want)), json!({"fen": fen}));
                    ok = false;
                }
            }
            Ok(Err(e)) => {
                rep.violation("coordinate-rejected", &format!("coordinate-rejected|{}|{}", fen, Pos::lan(om)), &format!("legal coordinates rejected: {:?}", e), json!({"fen": fen}));
                ok = false;
            }
            Err(e) => {
                rep.violation("coordinate-panic", &format!("coordinate-panic|{}|{}", fen, Pos::lan(om)), &e, json!({"fen": fen}));
                ok = false;
            }
        }
        if om.promo.is_some() && om.promo == Some(Kind::Q) {
            // the same coordinates without a letter denote no legal move
            let q = MoveQuery::by_moving_from_to(sq(om.from), sq(om.to));
            rep.eval(1);
            rep.count("promotion_without_letter", 1);
            if let Ok(Ok(ns)) = guard(|| State::by_performing_moves(st, &[q])) {
                rep.violation("coordinate-accepted", &format!("coordinate-accepted|{}|{}{}", fen, sq_name(om.from), sq_name(om.to)), &format!("promotion without a letter was applied: {}", to_pos(&ns).fen()), json!({"fen": fen}));
                ok = false;
            }
        }
    }
    // non-legal coordinates: random triples; a letter only on a pawn reaching the last rank
    for _ in 0..6 {
        let from = rng.gen_range(0..64u8);
        let to = rng.gen_range(0..64u8);
        let pawn_to_last = p.b[from as usize] == if p.wtm { 1 } else { -1 } && rank(to) == if p.wtm { 7 } else { 0 };
        let promo = if pawn_to_last && rng.gen_bool(0.7) { Some([Kind::Q, Kind::R, Kind::B, Kind::N][rng.gen_range(0..4)]) } else { None };
        if legal.iter().any(|m| m.from == from && m.to == to && m.promo == promo) {
            continue;
        }
        // without a letter the query would also match the four promotions only if (from,to) is one; that case is handled above
        let mut q = MoveQuery::by_moving_from_to(sq(from), sq(to));
        if let Some(k) = promo {
            q.set_promotion(piece_of(k));
        }
        rep.eval(1);
        rep.count("non_legal_coordinates", 1);
        // a near miss: origin holds an own piece
        if p.b[from as usize] != 0 && (p.b[from as usize] > 0) == p.wtm {
            rep.count("non_legal_coordinates_from_own_piece", 1);
        }
        match guard(|| State::by_performing_moves(st, &[q])) {
            Ok(Err(_)) => {
                if to_pos(st) != *p {
                    rep.violation("input-changed", &format!("input-changed|{}", fen), "a rejected selection changed the position", json!({"fen": fen}));
                    ok = false;
                }
            }
            Ok(Ok(ns)) => {
                rep.violation("coordinate-accepted", &format!("coordinate-accepted|{}|{}{}", fen, sq_name(from), sq_name(to)), &format!("non-legal coordinates were applied: {}", to_pos(&ns).fen()), json!({"fen": fen}));
                ok = false;
            }
            Err(e) => {
                rep.violation("coordinate-panic", &format!("coordinate-panic|{}|{}{}", fen, sq_name(from), sq_name(to)), &e, json!({"fen": fen}));
                ok = false;
            }
        }
    }
    // near-miss pseudo-legal-but-illegal coordinates (pinned pieces, king into check)
    for om in p.illegal_pseudo_moves().iter().take(6) {
        rep.eval(1);
        rep.count("pseudo_legal_coordinates_rejected", 1);
        match guard(|| State::by_performing_moves(st, &[query_of(om)])) {
            Ok(Err(_)) => {}
            Ok(Ok(ns)) => {
                rep.violation("coordinate-accepted", &format!("coordinate-accepted|{}|{}", fen, Pos::lan(om)), &format!("illegal move applied: {}", to_pos(&ns).fen()), json!({"fen": fen}));
                ok = false;
            }
            Err(e) => {
                rep.violation("coordinate-panic", &format!("coordinate-panic|{}|{}", fen, Pos::lan(om)), &e, json!({"fen": fen}));
                ok = false;
            }
        }
    }
    ok
}

/// One random game in lock-step: weechess advances through its own successors.
fn play_lockstep(start: &Pos, rng: &mut gen::R, rep: &mut Report, budget: &mut u64) {
    let plies = rng.gen_range(10..220);
    let mut pos = start.clone();
    let mut st = to_state(start);
    let mut queries: Vec<MoveQuery> = vec![];
    let mut trail: Vec<String> = vec![];
    for ply in 0..plies {
        if !check_position(&pos, &st, rng, rep) {
            return;
        }
        *budget = budget.saturating_sub(1);
        let legal = pos.legal_moves();
        if legal.is_empty() {
            break;
        }
        let om = gen::pick_move(rng, &pos, &legal);
        let ms = MoveGenerator::compute_legal_moves(&st);
        let Some(mr) = ms.moves().iter().find(|m| {
            let w = to_omove(&m.0);
            w.from == om.from && w.to == om.to && w.promo == om.promo
        }) else {
            rep.count("lockstep_move_missing_skipped", 1);
            return;
        };
        st = mr.1.clone();
        pos = pos.make(&om);
        queries.push(query_of(&om));
        trail.push(Pos::lan(&om));
        // the whole history through the coordinate interface, now and then
        if ply % 17 == 16 || ply + 1 == plies {
            rep.eval(1);
            rep.count("history_replays", 1);
            let s0 = to_state(start);
            match guard(|| State::by_performing_moves(&s0, &queries)) {
                Ok(Ok(ns)) => {
                    let have = to_pos(&ns);
                    if have != pos {
                        rep.violation("history", &format!("history|{}|{}", start.fen(), trail.join(" ")), &format!("after {} plies {} vs {} ({})", trail.len(), have.fen(), pos.fen(), diff(&have, &pos)), json!({"fen": start.fen(), "moves": trail}));
                        return;
                    }
                }
                Ok(Err(e)) => {
                    rep.violation("history", &format!("history|{}|{}", start.fen(), trail.join(" ")), &format!("legal move list rejected: {:?}", e), json!({"fen": start.fen(), "moves": trail}));
                    return;
                }
                Err(e) => {
                    rep.violation("history-panic", &format!("history-panic|{}|{}", start.fen(), trail.join(" ")), &e, json!({"fen": start.fen(), "moves": trail}));
                    return;
                }
            }
        }
    }
    rep.count("lockstep_games", 1);
    if rep.samples.len() < 2 {
        rep.sample(json!({"start": start.fen(), "moves": trail.iter().take(30).cloned().collect::<Vec<_>>().join(" "), "end": pos.fen()}));
    }
}

pub fn run(ctx: &Ctx, rep: &mut Report) {
    let mut rng = gen::shard_rng(ctx.seed, ctx.shard, 2);
    if let Some(path) = &ctx.replay {
        let v: serde_json::Value = serde_json::from_slice(&std::fs::read(path).expect("replay file")).expect("replay json");
        let start = Pos::from_fen(v["fen"].as_str().unwrap()).expect("replay fen");
        if let Some(ms) = v.get("moves").and_then(|m| m.as_array()) {
            // walk the recorded history
            let mut pos = start.clone();
            let mut st = to_state(&start);
            for m in ms {
                check_position(&pos, &st, &mut rng, rep);
                let lan = m.as_str().unwrap();
                let Some(om) = pos.legal_moves().into_iter().find(|o| Pos::lan(o) == lan) else { break };
                let Ok(ns) = State::by_performing_moves(&st, &[query_of(&om)]) else { break };
                st = ns;
                pos = pos.make(&om);
                if to_pos(&st) != pos {
                    rep.violation("history", &format!("history|{}", start.fen()), "replayed history diverges", json!({"fen": start.fen(), "moves": ms}));
                    break;
                }
            }
        } else {
            for _ in 0..20 {
                check_position(&start, &to_state(&start), &mut rng, rep);
            }
        }
        return;
    }
    let corpus = gen::corpus();
    for (i, p) in corpus.iter().enumerate() {
        if ctx.mine(i as u64) {
            check_position(p, &to_state(p), &mut rng, rep);
        }
    }
    for (i, p) in gen::castling_family().iter().enumerate() {
        if ctx.mine(i as u64) {
            check_position(p, &to_state(p), &mut rng, rep);
        }
    }
    for p in gen::ep_family(&mut rng, ctx.n(20_000, 1_000_000) as usize).iter() {
        check_position(p, &to_state(p), &mut rng, rep);
    }
    let mut budget = ctx.n(600_000, 20_000_000);
    while budget > 0 && ctx.time_left() {
        let mut start = if rng.gen_bool(0.5) { Pos::start() } else { corpus[rng.gen_range(0..corpus.len())].clone() };
        if rng.gen_bool(0.1) {
            // extreme but safe counters
            start.half = *[0u64, 49, 99, 100, 5000, (1 << 31) - 1].get(rng.gen_range(0..6)).unwrap();
            start.full = *[1u64, 2, 5949, (1 << 32) - 1].get(rng.gen_range(0..4)).unwrap();
        }
        play_lockstep(&start, &mut rng, rep, &mut budget);
    }
    let mut n = ctx.n(300_000, 10_000_000);
    while n > 0 && ctx.time_left() {
        let p = gen::sample(&mut rng);
        check_position(&p, &to_state(&p), &mut rng, rep);
        n -= 1;
    }
}
