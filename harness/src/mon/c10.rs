//! C10 — attacked-square sets and check detection, independent of query order and cloning.

use crate::conv::*;
use crate::gen;
use crate::oracle::rules::*;
use crate::report::{Ctx, Report};
use crate::util::guard;
use rand::{seq::SliceRandom, Rng};
use serde_json::json;
use weechess_core::{Board, Color, MoveGenerator, PieceIndex, State};

#[derive(Clone, Copy, Debug, PartialEq)]
enum Q {
    Att(bool),
    Pawn(bool),
    BoardCheck(bool),
    StateCheck,
    Clone,
}

/// attacked squares by geometry: union over pieces of ray walks / leaper patterns, minus own men
fn want_attacks(p: &Pos, white: bool) -> u64 {
    p.attack_set(white) & !p.occupancy(white)
}

fn want_pawn(p: &Pos, white: bool) -> u64 {
    p.pawn_attack_set(white) & !p.occupancy(white)
}

fn ask(q: Q, st: &State, p: &Pos, one_king: (bool, bool)) -> Result<Option<String>, String> {
    guard(|| match q {
        Q::Att(w) => {
            let g = bb(st.board().colored_attacks(color(w)));
            let want = want_attacks(p, w);
            if g != want {
                Some(format!("attacked squares of {}: {:#018x}, geometry {:#018x}", if w { "white" } else { "black" }, g, want))
            } else {
                None
            }
        }
        Q::Pawn(w) => {
            let g = bb(st.board().colored_pawn_attacks(color(w)));
            let want = want_pawn(p, w);
            if g != want {
                Some(format!("pawn attacks of {}: {:#018x}, geometry {:#018x}", if w { "white" } else { "black" }, g, want))
            } else {
                None
            }
        }
        Q::BoardCheck(w) => {
            if !(if w { one_king.0 } else { one_king.1 }) {
                return None;
            }
            let g = st.board().is_check(color(w));
            let want = p.in_check(w);
            if g != want {
                Some(format!("is_check({}) = {}, geometry says {}", if w { "white" } else { "black" }, g, want))
            } else {
                None
            }
        }
        Q::StateCheck => {
            if !(if p.wtm { one_king.0 } else { one_king.1 }) {
                return None;
            }
            let g = st.is_check();
            let want = p.in_check(p.wtm);
            if g != want {
                Some(format!("State::is_check() = {}, geometry says {}", g, want))
            } else {
                None
            }
        }
        Q::Clone => None,
    })
}

/// One object, one random order of queries with a clone taken somewhere in between; the clone and
/// the original are both asked the remaining questions.
pub fn check_object(p: &Pos, st: State, rng: &mut gen::R, rep: &mut Report) -> bool {
    let fen = p.fen();
    let one_king = (p.count(6) == 1, p.count(-6) == 1);
    let mut qs = vec![Q::Att(true), Q::Att(false), Q::Pawn(true), Q::Pawn(false), Q::BoardCheck(true), Q::BoardCheck(false), Q::StateCheck];
    qs.shuffle(rng);
    let clone_at = rng.gen_range(0..=qs.len());
    qs.insert(clone_at, Q::Clone);
    // repeat some questions at the end (second answer must equal the first = the oracle's)
    let extra: Vec<Q> = qs.iter().copied().filter(|q| *q != Q::Clone && rng.gen_bool(0.3)).collect();
    qs.extend(extra);
    let mut objs: Vec<State> = vec![st];
    let order: Vec<String> = qs.iter().map(|q| format!("{:?}", q)).collect();
    for q in qs.iter() {
        if *q == Q::Clone {
            let c = objs[0].clone();
            objs.push(c);
            continue;
        }
        for (i, o) in objs.iter().enumerate() {
            rep.eval(1);
            match ask(*q, o, p, one_king) {
                Ok(None) => {}
                Ok(Some(msg)) => {
                    rep.violation("attack-query", &format!("attack-query|{}", fen), &format!("{} (object {} of order {:?})", msg, if i == 0 { "original" } else { "clone" }, order), json!({"fen": fen, "order": order}));
                    return false;
                }
                Err(e) => {
                    rep.violation("attack-query-panic", &format!("attack-query-panic|{}", fen), &e, json!({"fen": fen, "order": order}));
                    return false;
                }
            }
        }
    }
    rep.count(&format!("clone_at_position_{}", clone_at), 1);
    true
}

fn random_placement(rng: &mut gen::R) -> Pos {
    let mut b = [0i8; 64];
    let n = rng.gen_range(0..=32);
    for _ in 0..n {
        let s = rng.gen_range(0..64usize);
        let k = rng.gen_range(1..=6i8);
        b[s] = if rng.gen_bool(0.5) { k } else { -k };
    }
    // usually exactly one king per side so that is_check is judged
    if rng.gen_bool(0.7) {
        for s in 0..64 {
            if b[s].abs() == 6 {
                b[s] = 0;
            }
        }
        for k in [6i8, -6] {
            loop {
                let s = rng.gen_range(0..64usize);
                if b[s] == 0 {
                    b[s] = k;
                    break;
                }
            }
        }
    }
    Pos { b, wtm: rng.gen_bool(0.5), castle: 0, ep: None, half: 0, full: 1 }
}

pub fn run(ctx: &Ctx, rep: &mut Report) {
    let mut rng = gen::shard_rng(ctx.seed, ctx.shard, 10);
    if let Some(path) = &ctx.replay {
        let v: serde_json::Value = serde_json::from_slice(&std::fs::read(path).expect("replay file")).expect("replay json");
        let p = Pos::from_fen(v["fen"].as_str().unwrap()).expect("replay fen");
        for _ in 0..50 {
            if !check_object(&p, to_state(&p), &mut rng, rep) {
                break;
            }
        }
        return;
    }
    let corpus = gen::corpus();
    for (i, p) in corpus.iter().enumerate() {
        if ctx.mine(i as u64) {
            for _ in 0..6 {
                check_object(p, to_state(p), &mut rng, rep);
            }
            rep.distinct(p.key_hash());
        }
    }
    // arbitrary placements through the public Board::from(&ArrayMap)
    let mut n = ctx.n(150_000, 5_000_000);
    while n > 0 && ctx.time_left() {
        let p = random_placement(&mut rng);
        let st = to_state(&p);
        // to_state uses Board::from(&ArrayMap); also exercise Board::new(piece_map)
        let st = if rng.gen_bool(0.3) {
            let b2 = Board::new(st.board().piece_map().clone());
            State::new(b2, st.turn_to_move(), weechess_core::utils::ArrayMap::filled(weechess_core::CastleRights::NONE), None, weechess_core::Clock::default())
        } else {
            st
        };
        if check_object(&p, st, &mut rng, rep) {
            rep.distinct(crate::report::mix(p.key_hash(), 77));
            rep.count("arbitrary_placements", 1);
            if p.count(6) != 1 || p.count(-6) != 1 {
                rep.count("placements_without_exactly_one_king_per_side", 1);
            }
        }
        n -= 1;
    }
    // legal positions; successors queried after their predecessor's cache was filled
    let mut n = ctx.n(200_000, 8_000_000);
    while n > 0 && ctx.time_left() {
        let start = if rng.gen_bool(0.5) { Pos::start() } else { corpus[rng.gen_range(0..corpus.len())].clone() };
        let plies = rng.gen_range(10..150);
        let mut pos = start.clone();
        let mut st = to_state(&start);
        for _ in 0..plies {
            if !check_object(&pos, st.clone(), &mut rng, rep) {
                return;
            }
            // the object that was queried stays `st`: fill its caches in a random order
            if rng.gen_bool(0.5) {
                let _ = st.board().colored_attacks(Color::White);
            }
            if rng.gen_bool(0.5) {
                let _ = st.board().colored_pawn_attacks(Color::Black);
            }
            rep.distinct(pos.key_hash());
            if pos.in_check(pos.wtm) {
                rep.count("positions_in_check", 1);
            }
            n = n.saturating_sub(1);
            let legal = pos.legal_moves();
            if legal.is_empty() {
                break;
            }
            let m = gen::pick_move(&mut rng, &pos, &legal);
            let ms = MoveGenerator::compute_legal_moves(&st);
            let Some(mr) = ms.moves().iter().find(|x| {
                let w = to_omove(&x.0);
                w.from == m.from && w.to == m.to && w.promo == m.promo
            }) else {
                break;
            };
            // successor taken from move generation (its caches were already touched there) ...
            let succ_a = mr.1.clone();
            // ... and built afresh from the queried predecessor
            let succ_b = State::by_performing_move(&st, &mr.0);
            pos = pos.make(&m);
            if to_pos(&succ_a) != pos {
                rep.count("successor_mismatch_skipped", 1);
                break;
            }
            if let Ok(sb) = succ_b {
                if !check_object(&pos, sb, &mut rng, rep) {
                    return;
                }
                rep.count("fresh_successors_of_queried_predecessors", 1);
            }
            st = succ_a;
        }
    }
    // every successor of the special-move families, built both by move generation and afresh from a
    // predecessor whose caches were filled (promotions incl. under-promotions with check, castling with
    // check, en passant)
    let mut fam: Vec<Pos> = gen::promotion_check_family(&mut rng, ctx.n(6_000, 300_000) as usize);
    fam.extend(gen::castle_check_family(&mut rng, ctx.n(3_000, 150_000) as usize));
    fam.extend(gen::ep_check_family(&mut rng, ctx.n(3_000, 150_000) as usize));
    for p in fam.iter() {
        let st = to_state(p);
        let _ = st.board().colored_attacks(Color::White);
        let _ = st.board().colored_attacks(Color::Black);
        let ms = MoveGenerator::compute_legal_moves(&st);
        for mr in ms.moves().iter() {
            let om = to_omove(&mr.0);
            if om.promo.is_none() && om.castle.is_none() && !om.ep {
                continue;
            }
            let Some(m) = p.legal_moves().into_iter().find(|x| *x == om) else { continue };
            let succ = p.make(&m);
            if to_pos(&mr.1) != succ {
                continue;
            }
            if !check_object(&succ, mr.1.clone(), &mut rng, rep) {
                return;
            }
            if let Ok(sb) = State::by_performing_move(&st, &mr.0) {
                if !check_object(&succ, sb, &mut rng, rep) {
                    return;
                }
            }
            rep.count("successors_of_special_moves", 1);
            if om.promo == Some(Kind::N) && succ.in_check(succ.wtm) {
                rep.count("knight_promotions_giving_check", 1);
            }
        }
    }
    let mut n = ctx.n(100_000, 5_000_000);
    while n > 0 && ctx.time_left() {
        let p = gen::sample(&mut rng);
        check_object(&p, to_state(&p), &mut rng, rep);
        rep.distinct(p.key_hash());
        n -= 1;
        if rep.samples.len() < 2 {
            rep.sample(json!({"fen": p.fen(), "white_attacks": format!("{:#018x}", want_attacks(&p, true)), "black_attacks": format!("{:#018x}", want_attacks(&p, false))}));
        }
    }
    let _ = PieceIndex::NONE;
}
