//! C07 — UCI session contract, judged by a session automaton over the ordered log of lines
//! sent and received. Missing answers are decided by order (`stop` + `isready` -> `readyok`
//! seen, `bestmove` not), never by a deadline.

use crate::gen;
use crate::oracle::rules::*;
use crate::report::{fnv, Ctx, Report};
use crate::uci::{Eng, Src, Wait};
use rand::{seq::SliceRandom, Rng};
use serde_json::{json, Value};
use std::collections::VecDeque;
use std::time::Duration;

pub const STALL: Duration = Duration::from_secs(8);
pub const OUTER: Duration = Duration::from_secs(120);
/// overrun of a `go movetime` budget, on the engine's own clock, beyond which a completed iteration is a violation
pub const TIME_OVERRUN_MS: u64 = 20_000;
/// CPU time (1/100 s) the engine's main thread may use between isready and readyok
pub const MAIN_THREAD_BUSY_TICKS: u64 = 1_500;

#[derive(Clone, Debug, PartialEq)]
pub enum Cmd {
    Uci,
    IsReady,
    NewGame,
    /// fen None = startpos
    Position { fen: Option<String>, moves: Vec<String> },
    /// spec is the text after "go"; wait = block until the bestmove of this go arrived
    Go { spec: String, wait: bool },
    Stop,
    State,
    Sleep(u64),
    /// go movetime on a quiet middlegame root followed at once by isready: readyok must come first
    ReadyDuringSearch { ms: u64 },
    Quit,
    Eof,
    /// an arbitrary line (C14); the automaton only requires the process to stay responsive
    Raw(String),
}

/// Some(ms) for a go whose only limit is `movetime ms`
fn pure_movetime(spec: &str) -> Option<u64> {
    let t: Vec<&str> = spec.split_whitespace().collect();
    if t.len() == 2 && t[0] == "movetime" {
        t[1].parse().ok()
    } else {
        None
    }
}

pub fn cmd_text(c: &Cmd) -> String {
    match c {
        Cmd::Uci => "uci".into(),
        Cmd::IsReady => "isready".into(),
        Cmd::NewGame => "ucinewgame".into(),
        Cmd::Position { fen, moves } => {
            let mut s = match fen {
                None => "position startpos".to_string(),
                Some(f) => format!("position fen {}", f),
            };
            if !moves.is_empty() {
                s.push_str(" moves ");
                s.push_str(&moves.join(" "));
            }
            s
        }
        Cmd::Go { spec, wait } => format!("go {}{}", spec, if *wait { " [wait]" } else { "" }).replace("  ", " "),
        Cmd::Stop => "stop".into(),
        Cmd::State => ".state".into(),
        Cmd::Sleep(ms) => format!("[sleep {}]", ms),
        Cmd::ReadyDuringSearch { ms } => format!("go movetime {} + isready", ms),
        Cmd::Quit => "quit".into(),
        Cmd::Eof => "[eof]".into(),
        Cmd::Raw(s) => s.chars().take(200).collect(),
    }
}

pub fn script_to_json(script: &[Cmd]) -> Value {
    Value::Array(
        script
            .iter()
            .map(|c| match c {
                Cmd::Uci => json!({"c": "uci"}),
                Cmd::IsReady => json!({"c": "isready"}),
                Cmd::NewGame => json!({"c": "ucinewgame"}),
                Cmd::Position { fen, moves } => json!({"c": "position", "fen": fen, "moves": moves}),
                Cmd::Go { spec, wait } => json!({"c": "go", "spec": spec, "wait": wait}),
                Cmd::Stop => json!({"c": "stop"}),
                Cmd::State => json!({"c": "state"}),
                Cmd::Sleep(ms) => json!({"c": "sleep", "ms": ms}),
                Cmd::ReadyDuringSearch { ms } => json!({"c": "ready_during_search", "ms": ms}),
                Cmd::Quit => json!({"c": "quit"}),
                Cmd::Eof => json!({"c": "eof"}),
                Cmd::Raw(s) => json!({"c": "raw", "line": s}),
            })
            .collect(),
    )
}

pub fn script_from_json(v: &Value) -> Vec<Cmd> {
    v.as_array()
        .unwrap()
        .iter()
        .map(|c| match c["c"].as_str().unwrap() {
            "uci" => Cmd::Uci,
            "isready" => Cmd::IsReady,
            "ucinewgame" => Cmd::NewGame,
            "position" => Cmd::Position { fen: c["fen"].as_str().map(|s| s.to_string()), moves: c["moves"].as_array().unwrap().iter().map(|m| m.as_str().unwrap().to_string()).collect() },
            "go" => Cmd::Go { spec: c["spec"].as_str().unwrap().into(), wait: c["wait"].as_bool().unwrap() },
            "stop" => Cmd::Stop,
            "state" => Cmd::State,
            "sleep" => Cmd::Sleep(c["ms"].as_u64().unwrap()),
            "ready_during_search" => Cmd::ReadyDuringSearch { ms: c["ms"].as_u64().unwrap() },
            "quit" => Cmd::Quit,
            "eof" => Cmd::Eof,
            _ => Cmd::Raw(c["line"].as_str().unwrap().into()),
        })
        .collect()
}

struct Go {
    pos: Pos,
    answered: bool,
    spec: String,
    sent: std::time::Instant,
    /// a terminating command (stop/go/position/ucinewgame/quit) was sent after this go
    terminated: bool,
}

pub struct Outcome {
    pub violation: Option<(String, String)>,
    pub inconclusive: Option<String>,
    pub gos: u64,
    pub bestmoves: u64,
    pub book_answers: u64,
    pub readyok_while_searching: u64,
    pub state_checks: u64,
    pub movetime_lower_bounds: u64,
    pub log_tail: Vec<String>,
    /// (score line, bestmove) of every answered go, in order (used by C18)
    pub answers: Vec<(Option<String>, String)>,
}

pub struct Session<'a> {
    pub eng: Eng,
    pub cur: Pos,
    gos: VecDeque<Go>,
    pub out: Outcome,
    last_score: Option<String>,
    info_after_stop: u64,
    stop_pending: bool,
    /// C14: hostile `go` lines need not be answered; only liveness is judged
    pub lenient: bool,
    book_since_go: bool,
    bin: &'a str,
}

impl<'a> Session<'a> {
    pub fn new(bin: &'a str, wrapper: &[String]) -> Result<Session<'a>, String> {
        let eng = Eng::spawn(bin, wrapper).map_err(|e| e.to_string())?;
        Ok(Session {
            eng,
            cur: Pos::start(),
            gos: VecDeque::new(),
            out: Outcome { violation: None, inconclusive: None, gos: 0, bestmoves: 0, book_answers: 0, readyok_while_searching: 0, state_checks: 0, movetime_lower_bounds: 0, log_tail: vec![], answers: vec![] },
            last_score: None,
            info_after_stop: 0,
            stop_pending: false,
            lenient: false,
            book_since_go: false,
            bin,
        })
    }

    fn fail(&mut self, kind: &str, msg: String) {
        if self.out.violation.is_none() {
            self.out.violation = Some((kind.to_string(), msg));
        }
    }

    /// every stdout line goes through here
    fn on_out(&mut self, l: &str) {
        if let Some(rest) = l.strip_prefix("bestmove") {
            let mv = rest.trim().split_whitespace().next().unwrap_or("").to_string();
            self.out.bestmoves += 1;
            let Some(idx) = self.gos.iter().position(|g| !g.answered) else {
                if !self.lenient {
                    self.fail("bestmove-without-go", format!("'{}' arrived with no unanswered go", l));
                }
                return;
            };
            let legal = self.gos[idx].pos.legal_moves();
            if !legal.iter().any(|m| Pos::lan(m) == mv) {
                let p = self.gos[idx].pos.fen();
                self.fail("illegal-bestmove", format!("'{}' is not a legal move (in coordinate notation) of {} (go {})", l, p, self.gos[idx].spec));
            }
            // "when ... the time is up": a pure movetime search that was not ended by a later command, was not
            // answered from the book and reports no mate must not answer before its time (a lower bound on
            // elapsed wall time is robust under load: load only delays)
            if let Some(ms) = pure_movetime(&self.gos[idx].spec) {
                let early = self.gos[idx].sent.elapsed().as_millis() as u64 + 120 < ms;
                let mate = self.last_score.as_ref().and_then(|l| l.split_whitespace().nth(3).and_then(|v| v.parse::<f64>().ok())).map(|v| v.abs() >= 10_000.0).unwrap_or(false);
                if early && !self.gos[idx].terminated && !self.book_since_go && !mate && ms >= 300 && !self.lenient {
                    let msg = format!("go movetime {} on {} was answered after {} ms although no later command ended it, the book was not used and no mate was reported", ms, self.gos[idx].pos.fen(), self.gos[idx].sent.elapsed().as_millis());
                    self.fail("bestmove-before-time", msg);
                }
                self.out.movetime_lower_bounds += 1;
            }
            self.book_since_go = false;
            self.gos[idx].answered = true;
            self.out.answers.push((self.last_score.take(), mv));
            self.stop_pending = false;
            self.info_after_stop = 0;
        } else if l.starts_with("info string book move") {
            self.out.book_answers += 1;
            self.book_since_go = true;
        } else if l.starts_with("info score") {
            self.last_score = Some(l.to_string());
        } else if l.starts_with("info time") {
            if self.stop_pending {
                self.info_after_stop += 1;
            }
            // "... when the time is up": the engine's own report "info time <ms> depth <d>" marks an iteration that
            // completed <ms> into the search. For a go with `movetime T` that no later command ended, an iteration
            // completed more than TIME_OVERRUN_MS beyond T means the budget did not end the search (judged on the
            // engine's own clock; a search stuck inside one iteration reports nothing and is not judged here)
            let ms = l.split_whitespace().nth(2).and_then(|v| v.parse::<f64>().ok()).unwrap_or(0.0) as u64;
            let mut overrun: Option<String> = None;
            if let Some(g) = self.gos.iter().find(|g| !g.answered) {
                let t: Vec<&str> = g.spec.split_whitespace().collect();
                let budget = t.iter().position(|x| *x == "movetime").and_then(|i| t.get(i + 1)).and_then(|v| v.parse::<u64>().ok());
                if let Some(b) = budget {
                    if !g.terminated && !self.lenient && ms > b + TIME_OVERRUN_MS && g.sent.elapsed().as_millis() as u64 > b + TIME_OVERRUN_MS {
                        overrun = Some(format!("go {} on {}: the engine reports an iteration completed {} ms into the search, {} ms beyond its time, and no bestmove has been printed", g.spec, g.pos.fen(), ms, ms - b));
                    }
                }
            }
            if let Some(msg) = overrun {
                self.fail("missing-bestmove", msg);
            }
        }
    }

    fn unanswered_with_move(&self) -> Option<String> {
        if self.lenient {
            return None;
        }
        self.gos.iter().find(|g| !g.answered && !g.pos.legal_moves().is_empty()).map(|g| format!("go {} on {}", g.spec, g.pos.fen()))
    }

    /// isready/readyok round trip. All gos sent before a terminating command must be answered by then.
    pub fn sync(&mut self, all_must_be_answered: bool) -> bool {
        self.eng.send("isready");
        let mut lines: Vec<String> = vec![];
        // readyok is owed whatever the engine is doing; the thread that reads the commands has nothing to compute
        self.eng.busy_main_ticks = Some(MAIN_THREAD_BUSY_TICKS);
        let w = self.eng.wait_for(
            |src, l| {
                if *src == Src::Out {
                    lines.push(l.to_string())
                }
            },
            |src, l| *src == Src::Out && l.trim() == "readyok",
            STALL,
            OUTER,
        );
        self.eng.busy_main_ticks = None;
        for l in lines.iter() {
            self.on_out(l);
            if self.info_after_stop > 1000 {
                self.fail("stop-ignored", "more than 1000 deepening iterations were reported after stop was sent and no bestmove arrived".into());
                return false;
            }
        }
        match w {
            Wait::Got => {}
            Wait::Busy => {
                self.fail("isready-unanswered", format!("no readyok although the process' main thread has used more than {} clock ticks of CPU since isready was sent (a loop in the command reader)", MAIN_THREAD_BUSY_TICKS));
                return false;
            }
            Wait::Hung => {
                let what = if self.stop_pending { "after a command that must end the running search (the search does not stop)" } else { "" };
                self.fail("isready-unanswered", format!("no readyok: the process neither answers nor uses CPU {}", what));
                return false;
            }
            Wait::Closed => {
                self.fail("process-died", "stdout closed while waiting for readyok".into());
                return false;
            }
            Wait::Slow => {
                if self.info_after_stop > 1000 {
                    self.fail("stop-ignored", "the search keeps deepening after stop".into());
                } else {
                    self.out.inconclusive = Some("readyok did not arrive within the outer watchdog while the process was still busy".into());
                }
                return false;
            }
        }
        if all_must_be_answered {
            if let Some(g) = self.unanswered_with_move() {
                self.fail("missing-bestmove", format!("{} was ended by a later command, readyok arrived, but no bestmove was printed", g));
                return false;
            }
            // terminal roots: the unanswered go is finished as well
            for g in self.gos.iter_mut() {
                g.answered = true;
            }
        }
        true
    }

    fn wait_bestmove(&mut self) -> bool {
        let before = self.out.bestmoves;
        let mut lines: Vec<String> = vec![];
        let w = self.eng.wait_for(
            |src, l| {
                if *src == Src::Out {
                    lines.push(l.to_string())
                }
            },
            |src, l| *src == Src::Out && l.starts_with("bestmove"),
            STALL,
            OUTER,
        );
        for l in lines.iter() {
            self.on_out(l);
        }
        match w {
            Wait::Got => self.out.bestmoves > before,
            Wait::Hung => {
                self.fail("missing-bestmove", "a depth- or time-limited go was never answered: the process is idle".into());
                false
            }
            Wait::Closed => {
                self.fail("process-died", "stdout closed while waiting for bestmove".into());
                false
            }
            Wait::Slow | Wait::Busy => {
                if self.out.violation.is_none() {
                    self.out.inconclusive = Some("bestmove did not arrive within the outer watchdog while the process was still busy".into());
                }
                false
            }
        }
    }

    pub fn step(&mut self, c: &Cmd) -> bool {
        match c {
            Cmd::Uci => {
                self.eng.send("uci");
                let mut seen: Vec<String> = vec![];
                let w = self.eng.wait_for(
                    |src, l| {
                        if *src == Src::Out {
                            seen.push(l.to_string())
                        }
                    },
                    |src, l| *src == Src::Out && l.trim() == "uciok",
                    STALL,
                    OUTER,
                );
                for l in seen.iter() {
                    self.on_out(l);
                }
                if w != Wait::Got {
                    self.fail("uci-unanswered", format!("no uciok ({:?})", w));
                    return false;
                }
                if !seen.iter().any(|l| l.starts_with("id name ")) || !seen.iter().any(|l| l.starts_with("id author ")) {
                    self.fail("uci-id-missing", "uciok without id name / id author".into());
                    return false;
                }
                true
            }
            Cmd::IsReady => self.sync(false),
            Cmd::NewGame => {
                for g in self.gos.iter_mut() {
                    g.terminated = true;
                }
                self.eng.send("ucinewgame");
                self.stop_pending = self.gos.iter().any(|g| !g.answered);
                self.sync(true)
            }
            Cmd::Position { fen, moves } => {
                for g in self.gos.iter_mut() {
                    g.terminated = true;
                }
                self.eng.send(&cmd_text(c));
                self.stop_pending = self.gos.iter().any(|g| !g.answered);
                let mut p = match fen {
                    None => Pos::start(),
                    Some(f) => Pos::from_fen(f).expect("session fen"),
                };
                for m in moves {
                    let om = p.legal_moves().into_iter().find(|o| Pos::lan(o) == *m).expect("session move must be legal");
                    p = p.make(&om);
                }
                self.cur = p;
                self.sync(true)
            }
            Cmd::Go { spec, wait } => {
                // a new go ends the previous search first
                let had_running = self.gos.iter().any(|g| !g.answered);
                for g in self.gos.iter_mut() {
                    g.terminated = true;
                }
                self.eng.send(&format!("go {}", spec).trim_end().to_string());
                self.out.gos += 1;
                self.gos.push_back(Go { pos: self.cur.clone(), answered: false, spec: spec.clone(), sent: std::time::Instant::now(), terminated: false });
                if had_running {
                    self.stop_pending = true;
                    // the earlier go must be answered before this one: check at the next readyok
                    self.eng.send("isready");
                    let mut lines: Vec<String> = vec![];
                    let w = self.eng.wait_for(|s, l| if *s == Src::Out { lines.push(l.to_string()) }, |s, l| *s == Src::Out && l.trim() == "readyok", STALL, OUTER);
                    for l in lines.iter() {
                        self.on_out(l);
                    }
                    if w != Wait::Got {
                        self.fail("isready-unanswered", format!("no readyok after a second go ({:?})", w));
                        return false;
                    }
                    let n = self.gos.len();
                    if let Some(g) = self.gos.iter().take(n - 1).find(|g| !self.lenient && !g.answered && !g.pos.legal_moves().is_empty()) {
                        let msg = format!("go {} on {} was ended by a new go but no bestmove was printed", g.spec, g.pos.fen());
                        self.fail("missing-bestmove", msg);
                        return false;
                    }
                    for g in self.gos.iter_mut().take(n - 1) {
                        g.answered = true;
                    }
                }
                let answered_already = self.gos.back().map(|g| g.answered).unwrap_or(false);
                if *wait && !self.cur.legal_moves().is_empty() && !answered_already {
                    self.wait_bestmove()
                } else {
                    true
                }
            }
            Cmd::Stop => {
                for g in self.gos.iter_mut() {
                    g.terminated = true;
                }
                self.eng.send("stop");
                self.stop_pending = self.gos.iter().any(|g| !g.answered);
                self.sync(true)
            }
            Cmd::State => {
                let mark = self.eng.log.len();
                self.eng.send(".state");
                if !self.sync(false) {
                    return false;
                }
                // the board dump goes to stderr, a different pipe: only lines logged after the command
                // was sent count, and the driver waits for them (order between the pipes is not defined)
                let want = self.cur.fen();
                let looks = |l: &str| l.trim().split(' ').count() == 6 && l.contains('/');
                let mut got: Option<String> = None;
                let t0 = std::time::Instant::now();
                loop {
                    for l in self.eng.log[mark..].iter() {
                        if let Some(t) = l.strip_prefix("! ") {
                            if looks(t) {
                                got = Some(t.trim().to_string());
                                break;
                            }
                        }
                    }
                    if got.is_some() || t0.elapsed() > Duration::from_secs(10) {
                        break;
                    }
                    if let Some((Src::Out, l)) = self.eng.next(Duration::from_millis(50)) {
                        self.on_out(&l);
                    }
                }
                self.out.state_checks += 1;
                match got {
                    Some(g) if g == want => true,
                    Some(g) => {
                        self.fail("position-tracking", format!("engine position '{}', chess rules give '{}'", g, want));
                        false
                    }
                    None => {
                        self.out.inconclusive = Some(".state printed no FEN line".into());
                        false
                    }
                }
            }
            Cmd::Sleep(ms) => {
                // keep reading while sleeping
                let t0 = std::time::Instant::now();
                while t0.elapsed() < Duration::from_millis(*ms) {
                    if let Some((Src::Out, l)) = self.eng.next(Duration::from_millis(5)) {
                        self.on_out(&l);
                    }
                }
                true
            }
            Cmd::ReadyDuringSearch { ms } => {
                self.eng.send(&format!("go movetime {}", ms));
                self.out.gos += 1;
                self.gos.push_back(Go { pos: self.cur.clone(), answered: false, spec: format!("movetime {}", ms), sent: std::time::Instant::now(), terminated: false });
                let before = self.out.bestmoves;
                let book_before = self.out.book_answers;
                if !self.sync(false) {
                    return false;
                }
                if self.out.book_answers > book_before {
                    // answered from the opening book at once: nothing is searching
                    return true;
                }
                if self.out.bestmoves > before {
                    // the search ended before readyok: only legitimate if it could end early
                    self.fail("readyok-after-bestmove", format!("isready sent right after go movetime {} was answered only after that search's bestmove", ms));
                    return false;
                }
                self.out.readyok_while_searching += 1;
                self.wait_bestmove()
            }
            Cmd::Quit | Cmd::Eof => {
                for g in self.gos.iter_mut() {
                    g.terminated = true;
                }
                if *c == Cmd::Quit {
                    self.eng.send("quit");
                } else {
                    self.eng.close_stdin();
                }
                // everything still in the pipe belongs to the session
                let code = {
                    let t0 = std::time::Instant::now();
                    loop {
                        match self.eng.next(Duration::from_millis(50)) {
                            Some((Src::Out, l)) => self.on_out(&l),
                            Some(_) => {}
                            None => {
                                if let Ok(Some(_)) = self.eng.child.try_wait() {
                                    break;
                                }
                                if t0.elapsed() > Duration::from_secs(60) {
                                    break;
                                }
                            }
                        }
                    }
                    while let Some((src, l)) = self.eng.next(Duration::from_millis(50)) {
                        if src == Src::Out {
                            self.on_out(&l);
                        }
                    }
                    self.eng.finish(Duration::from_secs(5))
                };
                match code {
                    Some(0) => {}
                    Some(c) => {
                        self.fail("exit-status", format!("process ended with status {} after quit/end of input", c));
                        return false;
                    }
                    None => {
                        self.fail("no-exit", "process did not end after quit/end of input".into());
                        return false;
                    }
                }
                if let Some(g) = self.unanswered_with_move() {
                    self.fail("missing-bestmove", format!("{} was ended by quit/end of input but no bestmove was printed", g));
                    return false;
                }
                false
            }
            Cmd::Raw(line) => {
                self.eng.send(line);
                true
            }
        }
    }

    pub fn run(mut self, script: &[Cmd]) -> Outcome {
        for c in script {
            let go_on = self.step(c);
            if self.out.violation.is_some() || self.out.inconclusive.is_some() || !go_on {
                break;
            }
        }
        self.out.log_tail = self.eng.tail(40);
        self.eng.kill();
        let _ = self.bin;
        self.out
    }
}

// ---------------------------------------------------------------------------------------------
// session generator

pub fn tame(p: &Pos) -> bool {
    gen::q_cost(p, 300_000) < 300_000
}

fn random_fen_root(rng: &mut gen::R, corpus: &[Pos]) -> Pos {
    loop {
        let p = match rng.gen_range(0..10) {
            0..=3 => corpus[rng.gen_range(0..corpus.len())].clone(),
            4..=6 => {
                let plies = rng.gen_range(0..70);
                gen::play(rng, &Pos::start(), plies).1
            }
            7 => {
                // same placement, fewer rights (history family of C03/C08)
                let plies = rng.gen_range(6..30);
                let mut q = gen::play(rng, &Pos::start(), plies).1;
                q.castle &= rng.gen_range(0..16);
                q
            }
            8 => gen::ep_family(rng, 1).pop().unwrap(),
            _ => gen::sample(rng),
        };
        if p.is_legal_position() && p.half < 1000 && tame(&p) {
            return p;
        }
    }
}

pub fn make_session(rng: &mut gen::R, corpus: &[Pos]) -> Vec<Cmd> {
    let mut s = vec![];
    if rng.gen_bool(0.8) {
        s.push(Cmd::Uci);
    }
    if rng.gen_bool(0.5) {
        s.push(Cmd::IsReady);
    }
    let mut cur = Pos::start();
    let mut searching = false;
    let n = rng.gen_range(4..14);
    for _ in 0..n {
        match rng.gen_range(0..100) {
            0..=34 => {
                // position: a new one, or (as GUIs do) the previous base with a longer or shorter move list
                // (mostly the latest position command; sometimes an earlier one, so that another base lies in between:
                // "startpos moves a b", "fen F", "startpos moves a b c")
                let earlier: Vec<(Option<String>, Vec<String>)> = s
                    .iter()
                    .filter_map(|c| match c {
                        Cmd::Position { fen, moves } => Some((fen.clone(), moves.clone())),
                        _ => None,
                    })
                    .collect();
                let prev = if earlier.is_empty() {
                    None
                } else if rng.gen_bool(0.7) {
                    earlier.last().cloned()
                } else {
                    Some(earlier[rng.gen_range(0..earlier.len())].clone())
                };
                let (fen, moves, last) = match prev {
                    Some((pf, pm)) if rng.gen_bool(0.35) => {
                        let base = match &pf {
                            None => Pos::start(),
                            Some(f) => Pos::from_fen(f).unwrap(),
                        };
                        // takeback (proper prefix, possibly empty) or continuation
                        let keep = if rng.gen_bool(0.6) && !pm.is_empty() { rng.gen_range(0..pm.len()) } else { pm.len() };
                        let mut p = base.clone();
                        let mut ms: Vec<String> = vec![];
                        for m in pm.iter().take(keep) {
                            let om = p.legal_moves().into_iter().find(|o| Pos::lan(o) == *m).unwrap();
                            p = p.make(&om);
                            ms.push(m.clone());
                        }
                        if keep == pm.len() {
                            let extra = rng.gen_range(0..4);
                            let (game, _) = gen::play(rng, &p.clone(), extra);
                            for (q, m) in game.iter() {
                                let _ = q;
                                ms.push(Pos::lan(m));
                                p = p.make(m);
                            }
                        }
                        (pf, ms, p)
                    }
                    _ => {
                        let (fen, start) = if rng.gen_bool(0.45) {
                            (None, Pos::start())
                        } else {
                            let p = random_fen_root(rng, corpus);
                            (Some(p.fen()), p)
                        };
                        let plies = if fen.is_none() { rng.gen_range(0..40) } else { rng.gen_range(0..12) };
                        let (game, last) = gen::play(rng, &start, plies);
                        (fen, game.iter().map(|(_, m)| Pos::lan(m)).collect(), last)
                    }
                };
                cur = last;
                s.push(Cmd::Position { fen, moves });
                searching = false;
                if rng.gen_bool(0.4) {
                    s.push(Cmd::State);
                }
            }
            35..=74 => {
                if !tame(&cur) {
                    s.push(Cmd::IsReady);
                    continue;
                }
                let spec = match rng.gen_range(0..100) {
                    0..=54 => format!("depth {}", rng.gen_range(1..=if cur.men() > 16 { 3 } else { 4 })),
                    55..=89 => format!("movetime {}", [0u64, 1, 50, 120, 250, 400][rng.gen_range(0..6)]),
                    90..=94 => format!("depth {} movetime {}", rng.gen_range(1..=3), rng.gen_range(50..300)),
                    _ => String::new(),
                };
                let wait = !spec.is_empty() && rng.gen_bool(0.5);
                let plain = spec.is_empty();
                s.push(Cmd::Go { spec, wait });
                searching = !wait;
                if plain || (searching && rng.gen_bool(0.4)) {
                    if rng.gen_bool(0.5) {
                        s.push(Cmd::Sleep(rng.gen_range(1..300)));
                    }
                    if rng.gen_bool(0.3) {
                        s.push(Cmd::IsReady);
                    }
                    s.push(Cmd::Stop);
                    searching = false;
                }
            }
            75..=82 => {
                s.push(Cmd::Stop);
                searching = false;
            }
            83..=88 => s.push(Cmd::IsReady),
            89..=93 => {
                s.push(Cmd::NewGame);
                searching = false;
            }
            94..=96 => s.push(Cmd::State),
            _ => s.push(Cmd::Sleep(rng.gen_range(1..200))),
        }
    }
    let _ = searching;
    s.push(if rng.gen_bool(0.7) { Cmd::Quit } else { Cmd::Eof });
    s
}

/// isready must be answered while a long search runs (quiet middlegame root, not in the book)
pub fn ready_session(rng: &mut gen::R) -> Vec<Cmd> {
    let roots = [
        "r1bq1rk1/pp2bppp/2n1pn2/2pp4/3P1B2/2PBPN2/PP1N1PPP/R2QK2R w KQ - 2 8",
        "2kr3r/ppp2ppp/2n5/2b1p3/4P1bq/2NP1N2/PPP1BPPP/R1BQ1RK1 w - - 6 9",
        "r2q1rk1/1b2bppp/p1n1pn2/1pp5/3P4/1BN1PN2/PP2QPPP/R1BR2K1 w - - 0 13",
        "r1b2rk1/2q1bppp/p1n1pn2/1p6/3NP3/1BN1B3/PPP1Q1PP/R4RK1 w - - 2 14",
    ];
    // the judged search may be the first of the process or a later one of the same game (memory taken over from an
    // earlier search, however that one ended) or the first of a new game
    let mut s = vec![Cmd::Uci, Cmd::Position { fen: Some(roots.choose(rng).unwrap().to_string()), moves: vec![] }];
    match rng.gen_range(0..7) {
        0 | 1 => {}
        2 => {
            s.push(Cmd::Go { spec: format!("depth {}", rng.gen_range(1..=3)), wait: true });
            s.push(Cmd::Stop);
        }
        3 => s.push(Cmd::Go { spec: format!("depth {}", rng.gen_range(1..=3)), wait: true }),
        4 => {
            s.push(Cmd::Go { spec: "movetime 600".into(), wait: false });
            s.push(Cmd::Sleep(rng.gen_range(20..300)));
            s.push(Cmd::Stop);
        }
        5 => {
            s.push(Cmd::Go { spec: format!("depth {}", rng.gen_range(1..=3)), wait: true });
            s.push(Cmd::Position { fen: Some(roots.choose(rng).unwrap().to_string()), moves: vec![] });
        }
        _ => {
            s.push(Cmd::Go { spec: format!("depth {}", rng.gen_range(1..=3)), wait: true });
            s.push(Cmd::Stop);
            s.push(Cmd::NewGame);
        }
    }
    s.push(Cmd::ReadyDuringSearch { ms: 2500 });
    if rng.gen_bool(0.4) {
        if rng.gen_bool(0.5) {
            s.push(Cmd::Position { fen: Some(roots.choose(rng).unwrap().to_string()), moves: vec![] });
        }
        s.push(Cmd::ReadyDuringSearch { ms: 1500 });
    }
    s.push(Cmd::Quit);
    s
}

/// "startpos moves a b", then another base ("fen F"), then "startpos moves a b [c d]": whatever the engine remembers
/// about the earlier move list, the position must be the one the last command describes
pub fn detour_session(rng: &mut gen::R, corpus: &[Pos]) -> Vec<Cmd> {
    let mut s = vec![Cmd::Uci];
    let n1 = rng.gen_range(0..10);
    let (game, _) = gen::play(rng, &Pos::start(), n1);
    let first: Vec<String> = game.iter().map(|(_, m)| Pos::lan(m)).collect();
    s.push(Cmd::Position { fen: None, moves: first.clone() });
    if rng.gen_bool(0.5) {
        s.push(Cmd::State);
    }
    if rng.gen_bool(0.4) {
        s.push(Cmd::Go { spec: "depth 1".into(), wait: true });
    }
    let f = random_fen_root(rng, corpus);
    let n2 = rng.gen_range(0..4);
    let (g2, _) = gen::play(rng, &f, n2);
    s.push(Cmd::Position { fen: Some(f.fen()), moves: g2.iter().map(|(_, m)| Pos::lan(m)).collect() });
    if rng.gen_bool(0.5) {
        s.push(Cmd::State);
    }
    // back to the first game: same list, a continuation, or a takeback
    let mut p = Pos::start();
    let keep = if rng.gen_bool(0.7) || first.is_empty() { first.len() } else { rng.gen_range(0..first.len()) };
    let mut ms: Vec<String> = vec![];
    for m in first.iter().take(keep) {
        let om = p.legal_moves().into_iter().find(|o| Pos::lan(o) == *m).unwrap();
        p = p.make(&om);
        ms.push(m.clone());
    }
    if keep == first.len() {
        let n3 = rng.gen_range(0..4);
        let (g3, _) = gen::play(rng, &p.clone(), n3);
        for (_, m) in g3.iter() {
            ms.push(Pos::lan(m));
            p = p.make(m);
        }
    }
    s.push(Cmd::Position { fen: None, moves: ms });
    s.push(Cmd::State);
    if !p.legal_moves().is_empty() && tame(&p) {
        s.push(Cmd::Go { spec: format!("depth {}", rng.gen_range(1..=2)), wait: true });
    }
    s.push(Cmd::Quit);
    s
}

/// a timer of an earlier go must not end a later search: the later `go movetime` must use its whole time
pub fn stale_timer_session(rng: &mut gen::R) -> Vec<Cmd> {
    let roots = [
        "r1bq1rk1/pp2bppp/2n1pn2/2pp4/3P1B2/2PBPN2/PP1N1PPP/R2QK2R w KQ - 2 8",
        "r2q1rk1/1b2bppp/p1n1pn2/1pp5/3P4/1BN1PN2/PP2QPPP/R1BR2K1 w - - 0 13",
        "r1b2rk1/2q1bppp/p1n1pn2/1p6/3NP3/1BN1B3/PPP1Q1PP/R4RK1 w - - 2 14",
    ];
    let mut s = vec![Cmd::Uci, Cmd::Position { fen: Some(roots.choose(rng).unwrap().to_string()), moves: vec![] }];
    if rng.gen_bool(0.5) {
        // default 4 s timer of a depth-limited go that answered at once
        s.push(Cmd::Go { spec: format!("depth {}", rng.gen_range(1..=2)), wait: true });
        s.push(Cmd::Sleep(rng.gen_range(1500..2600)));
        s.push(Cmd::Go { spec: "movetime 3000".into(), wait: true });
    } else {
        // timer of a stopped movetime search
        s.push(Cmd::Go { spec: "movetime 1500".into(), wait: false });
        s.push(Cmd::Sleep(rng.gen_range(400..900)));
        s.push(Cmd::Stop);
        s.push(Cmd::Go { spec: "movetime 2400".into(), wait: true });
    }
    s.push(Cmd::Quit);
    s
}

/// Adaptive: search A until its time is up, then search B = A without the man the answer moved.
/// Whatever is carried over from A's search must not surface as an illegal bestmove in B.
pub fn related_session(bin: &str, rng: &mut gen::R, corpus: &[Pos], rep: &mut Report) {
    let a = loop {
        let p = random_fen_root(rng, corpus);
        if !p.legal_moves().is_empty() && p.men() >= 4 {
            break p;
        }
    };
    let Ok(mut sess) = Session::new(bin, &[]) else { return };
    let mut script = vec![Cmd::Position { fen: Some(a.fen()), moves: vec![] }];
    // ended by its own timer, by stop, or by the following position command
    let how = rng.gen_range(0..3);
    match how {
        0 => script.push(Cmd::Go { spec: format!("movetime {}", rng.gen_range(60..250)), wait: true }),
        1 => {
            script.push(Cmd::Go { spec: String::new(), wait: false });
            script.push(Cmd::Sleep(rng.gen_range(30..250)));
            script.push(Cmd::Stop);
        }
        _ => {
            script.push(Cmd::Go { spec: "movetime 2000".into(), wait: false });
            script.push(Cmd::Sleep(rng.gen_range(30..250)));
            script.push(Cmd::IsReady);
            script.push(Cmd::Stop);
        }
    }
    for c in script.iter() {
        if !sess.step(c) || sess.out.violation.is_some() || sess.out.inconclusive.is_some() {
            break;
        }
    }
    let mut b = None;
    if sess.out.violation.is_none() && sess.out.inconclusive.is_none() {
        if let Some((_, mv)) = sess.out.answers.last() {
            if let Some(m) = a.legal_moves().into_iter().find(|o| Pos::lan(o) == *mv) {
                let mut q = a.clone();
                q.ep = None;
                let victim = if a.b[m.from as usize].abs() != 6 { Some(m.from) } else if m.capture.is_some() && !m.ep { Some(m.to) } else { None };
                if let Some(v) = victim {
                    q.b[v as usize] = 0;
                    for (bit, ksq, rsq, k, r) in [(WK, 4usize, 7usize, 6i8, 4i8), (WQ, 4, 0, 6, 4), (BK, 60, 63, -6, -4), (BQ, 60, 56, -6, -4)] {
                        if q.castle & bit != 0 && (q.b[ksq] != k || q.b[rsq] != r) {
                            q.castle &= !bit;
                        }
                    }
                    if q.is_legal_position() && !q.legal_moves().is_empty() && tame(&q) {
                        b = Some(q);
                    }
                }
            }
        }
    }
    if let Some(q) = b {
        let tail = vec![Cmd::Position { fen: Some(q.fen()), moves: vec![] }, Cmd::Go { spec: format!("depth {}", rng.gen_range(1..=3)), wait: true }, Cmd::Quit];
        for c in tail.iter() {
            script.push(c.clone());
            if !sess.step(c) || sess.out.violation.is_some() || sess.out.inconclusive.is_some() {
                break;
            }
        }
        rep.count("related_position_sessions", 1);
    }
    sess.out.log_tail = sess.eng.tail(40);
    sess.eng.kill();
    let out = sess.out;
    judge(&script, &out, "", rep);
}

pub fn judge(script: &[Cmd], out: &Outcome, kind_prefix: &str, rep: &mut Report) -> bool {
    rep.eval(1);
    rep.count("sessions", 1);
    rep.count("go_commands", out.gos);
    rep.count("bestmoves", out.bestmoves);
    rep.count("book_answers", out.book_answers);
    rep.count("readyok_while_searching", out.readyok_while_searching);
    rep.count("position_tracking_checks", out.state_checks);
    rep.count("movetime_answers_checked_against_their_time", out.movetime_lower_bounds);
    rep.count("commands", script.len() as u64);
    let text: Vec<String> = script.iter().map(cmd_text).collect();
    if let Some((kind, msg)) = &out.violation {
        let sig = format!("{}{}|{}", kind_prefix, kind, text.join(";"));
        rep.violation(&format!("{}{}", kind_prefix, kind), &sig, &format!("{}\nsession: {}\nlog tail:\n{}", msg, text.join(" ; "), out.log_tail.join("\n")), json!({"script": script_to_json(script)}));
        return false;
    }
    if let Some(m) = &out.inconclusive {
        rep.inconclusive(&format!("{} (session: {})", m, text.join(" ; ")));
        return false;
    }
    rep.distinct(fnv(&text.join(";")));
    true
}

pub fn run(ctx: &Ctx, rep: &mut Report) {
    let Some(bin) = ctx.bin.clone() else {
        rep.inconclusive("no weechess binary given");
        return;
    };
    let wrapper: Vec<String> = if ctx.mode == "valgrind" { vec!["valgrind".into(), "--error-exitcode=99".into(), "--quiet".into()] } else { vec![] };
    let mut rng = gen::shard_rng(ctx.seed, ctx.shard, 7);
    let corpus: Vec<Pos> = gen::corpus().into_iter().filter(|p| p.half < 1000).collect();
    if let Some(path) = &ctx.replay {
        let v: Value = serde_json::from_slice(&std::fs::read(path).expect("replay file")).expect("replay json");
        let script = script_from_json(&v["script"]);
        for _ in 0..3 {
            let Ok(s) = Session::new(&bin, &wrapper) else { break };
            let out = s.run(&script);
            if !judge(&script, &out, "", rep) {
                break;
            }
        }
        return;
    }
    if ctx.mode == "valgrind" {
        // one modest session under memcheck
        let script = vec![Cmd::Uci, Cmd::Position { fen: None, moves: vec!["e2e4".into(), "c7c5".into()] }, Cmd::State, Cmd::Position { fen: Some("r3k2r/8/8/8/8/8/8/R3K2R w KQkq - 0 1".into()), moves: vec!["e1g1".into()] }, Cmd::Go { spec: "depth 2".into(), wait: true }, Cmd::Go { spec: "movetime 200".into(), wait: false }, Cmd::Stop, Cmd::Quit];
        match Session::new(&bin, &wrapper) {
            Ok(s) => {
                let out = s.run(&script);
                judge(&script, &out, "", rep);
                rep.count("sessions_under_memcheck", 1);
            }
            Err(e) => rep.inconclusive(&format!("valgrind not runnable: {}", e)),
        }
        return;
    }
    let mut n = ctx.n(100, 4_000);
    let mut k = 0;
    while n > 0 && ctx.time_left() {
        k += 1;
        if k % 4 == 3 {
            related_session(&bin, &mut rng, &corpus, rep);
            n -= 1;
            continue;
        }
        let script = if k % 12 == 1 {
            ready_session(&mut rng)
        } else if k % 12 == 6 {
            rep.count("stale_timer_sessions", 1);
            stale_timer_session(&mut rng)
        } else if k % 12 == 9 {
            rep.count("detour_sessions", 1);
            detour_session(&mut rng, &corpus)
        } else {
            make_session(&mut rng, &corpus)
        };
        let s = match Session::new(&bin, &wrapper) {
            Ok(s) => s,
            Err(e) => {
                rep.inconclusive(&format!("cannot start {}: {}", bin, e));
                return;
            }
        };
        let mut out = s.run(&script);
        // the one order that scheduling could disturb is repeated once in isolation before it counts
        for _ in 0..2 {
            if matches!(&out.violation, Some((k, _)) if k == "readyok-after-bestmove") {
                rep.count("readyok_order_retries", 1);
                std::thread::sleep(std::time::Duration::from_millis(500));
                if let Ok(s2) = Session::new(&bin, &wrapper) {
                    out = s2.run(&script);
                }
            }
        }
        judge(&script, &out, "", rep);
        if rep.samples.len() < 3 {
            rep.sample(json!({"session": script.iter().map(cmd_text).collect::<Vec<_>>(), "answers": out.answers.iter().map(|a| a.1.clone()).collect::<Vec<_>>()}));
        }
        n -= 1;
    }
}
