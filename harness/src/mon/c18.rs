//! C18 — `ucinewgame` gives a clean search memory: differential against a fresh process.

use crate::gen;
use crate::mon::c06::{build_tb, random_three_man};
use crate::mon::c07::{cmd_text, script_to_json, Cmd, Session};
use crate::oracle::rules::*;
use crate::oracle::tb::{Tablebases, Val};
use crate::report::{fnv, Ctx, Report};
use rand::{seq::SliceRandom, Rng};
use serde_json::{json, Value};

/// The judged search: depth 4 with an explicit generous time limit. A bare `go depth 4` also carries the
/// engine's default 4 s limit, which a loaded machine can use up while the 1 GiB memory is being allocated
/// (observed in a thorough run: depth 1 finished after 4052 ms and the search was stopped there).
pub const JUDGED_GO: &str = "depth 4 movetime 120000";

pub struct Case {
    pub m: Pos,
    pub k: OMove,
    pub x: Pos,
}

/// M: mate in 3 plies with a unique first move K that mates that fast (every other move needs
/// at least 5 plies, which a depth-4 search cannot see)
/// or (one case in four) mate in 1 with a unique mating move: X is then a final position, so an earlier game whose
/// only searched positions are X leaves nothing but the recorded root behind (no table entry, no answer)
pub fn find_case(rng: &mut gen::R, tb: &Tablebases) -> Case {
    let (n, after) = if rng.gen_bool(0.25) { (1u16, 0u16) } else { (3, 2) };
    loop {
        let p = random_three_man(rng, &[Kind::R, Kind::Q, Kind::R]);
        if tb.probe(&p) != Some(Val::Win(n)) {
            continue;
        }
        let legal = p.legal_moves();
        let winners: Vec<&OMove> = legal.iter().filter(|m| tb.probe(&p.make(m)) == Some(Val::Loss(after))).collect();
        if winners.len() != 1 {
            continue;
        }
        let k = *winners[0];
        return Case { x: p.make(&k), m: p, k };
    }
}

fn mate_score(score_line: &Option<String>) -> Option<bool> {
    // "info score cp 10700.0"
    let l = score_line.as_ref()?;
    let v: f64 = l.split_whitespace().nth(3)?.parse().ok()?;
    Some(v >= 10_000.0)
}

/// final (is mate score, bestmove) of the last go of a session
fn final_answer(bin: &str, script: &[Cmd]) -> Result<(Option<bool>, String, Vec<String>), String> {
    let s = Session::new(bin, &[]).map_err(|e| e.to_string())?;
    let out = s.run(script);
    if let Some((k, m)) = out.violation {
        return Err(format!("session contract broken ({}): {}", k, m));
    }
    if let Some(m) = out.inconclusive {
        return Err(m);
    }
    let last = out.answers.last().cloned().ok_or("no bestmove")?;
    Ok((mate_score(&last.0), last.1, out.log_tail))
}

/// "Wrap" histories: one earlier game searches X and then M itself (so that, X being a repetition, the memory
/// holds another move than K for M), followed by exactly 256, 512, 768 or 65536 new games and the judged search:
/// whatever counts games must not wrap round into that memory.
fn wrap_history(rng: &mut gen::R, c: &Case) -> Vec<Cmd> {
    let mut s = vec![Cmd::Uci];
    if rng.gen_bool(0.3) {
        s.push(Cmd::NewGame);
    }
    s.push(Cmd::Position { fen: Some(c.x.fen()), moves: vec![] });
    s.push(Cmd::Go { spec: format!("depth {}", rng.gen_range(1..=3)), wait: true });
    s.push(Cmd::Position { fen: Some(c.m.fen()), moves: vec![] });
    s.push(Cmd::Go { spec: format!("depth {} movetime 120000", rng.gen_range(4..=6)), wait: true });
    if rng.gen_bool(0.5) {
        s.push(Cmd::Stop);
    }
    let k = [256usize, 256, 512, 768, 65536][rng.gen_range(0..5)];
    let mut bulk = String::new();
    for i in 0..k - 1 {
        if i > 0 {
            bulk.push('\n');
        }
        bulk.push_str("ucinewgame");
    }
    s.push(Cmd::Raw(bulk));
    s.push(Cmd::NewGame);
    s.push(Cmd::Position { fen: Some(c.m.fen()), moves: vec![] });
    s.push(Cmd::Go { spec: JUDGED_GO.into(), wait: true });
    s.push(Cmd::Quit);
    s
}

pub fn history(rng: &mut gen::R, c: &Case, tb: &Tablebases) -> Vec<Cmd> {
    if rng.gen_bool(0.2) {
        return wrap_history(rng, c);
    }
    let mut s = vec![Cmd::Uci];
    let games = rng.gen_range(1..=3);
    for g in 0..games {
        // an earlier "game": searches of X (the position after the key move) and sometimes of M itself
        let use_x = g == games - 1 || rng.gen_bool(0.7);
        let root = if use_x { c.x.clone() } else { c.m.clone() };
        if use_x && rng.gen_bool(0.4) {
            // the same position given as GUIs give it: the earlier position plus the move played
            s.push(Cmd::Position { fen: Some(c.m.fen()), moves: vec![Pos::lan(&c.k)] });
        } else {
            s.push(Cmd::Position { fen: Some(root.fen()), moves: vec![] });
        }
        let depth = rng.gen_range(2..=4);
        match rng.gen_range(0..6) {
            0 => {
                // finished, collected by stop
                s.push(Cmd::Go { spec: format!("depth {}", depth), wait: true });
                s.push(Cmd::Stop);
            }
            1 => {
                // finished, collected by the next position command
                s.push(Cmd::Go { spec: format!("depth {}", depth), wait: true });
                s.push(Cmd::Position { fen: Some(c.m.fen()), moves: vec![] });
            }
            2 => {
                // finished, collected by a second go
                s.push(Cmd::Go { spec: format!("depth {}", depth), wait: true });
                s.push(Cmd::Go { spec: "depth 1".into(), wait: true });
            }
            3 => {
                // still running when ucinewgame arrives
                s.push(Cmd::Go { spec: "movetime 400".into(), wait: false });
            }
            4 => {
                // running, stopped
                s.push(Cmd::Go { spec: String::new(), wait: false });
                s.push(Cmd::Sleep(rng.gen_range(1..150)));
                s.push(Cmd::Stop);
            }
            _ => {
                // finished, nothing collects it before ucinewgame
                s.push(Cmd::Go { spec: format!("depth {}", depth), wait: true });
            }
        }
        // a readiness check between the end of a game and whatever follows (GUIs send one before ucinewgame)
        if rng.gen_bool(0.35) {
            s.push(Cmd::IsReady);
        }
        if g < games - 1 && rng.gen_bool(0.5) {
            s.push(Cmd::NewGame);
        }
    }
    // games without any search between two ucinewgame commands: nothing at all, or only book answers
    match rng.gen_range(0..5) {
        0 => s.push(Cmd::NewGame),
        1 => {
            s.push(Cmd::NewGame);
            s.push(Cmd::Position { fen: None, moves: vec![] });
            s.push(Cmd::Go { spec: "depth 2".into(), wait: true });
            if rng.gen_bool(0.5) {
                s.push(Cmd::Position { fen: None, moves: vec!["e2e4".into(), "e7e5".into()] });
                s.push(Cmd::Go { spec: String::new(), wait: true });
            }
        }
        2 => {
            s.push(Cmd::NewGame);
            s.push(Cmd::IsReady);
        }
        _ => {}
    }
    let _ = tb;
    // many new games in a row (a counter of games must not wrap into an earlier game's memory)
    if rng.gen_bool(0.3) {
        let k = [2usize, 3, 17, 255, 256, 257, 511, 512, 513, 1024, 65536, 65537][rng.gen_range(0..12)];
        let mut bulk = String::new();
        for i in 0..k - 1 {
            if i > 0 {
                bulk.push('\n');
            }
            bulk.push_str("ucinewgame");
        }
        s.push(Cmd::Raw(bulk));
    }
    s.push(Cmd::NewGame);
    // the new game may begin with commands that do not search: a book answer, isready, a stray stop
    match rng.gen_range(0..6) {
        0 | 1 => {
            let moves = if rng.gen_bool(0.5) { vec![] } else { vec!["e2e4".to_string()] };
            s.push(Cmd::Position { fen: None, moves });
            s.push(Cmd::Go { spec: ["", "depth 2", "movetime 100"][rng.gen_range(0..3)].into(), wait: true });
        }
        2 => s.push(Cmd::IsReady),
        3 => s.push(Cmd::Stop),
        _ => {}
    }
    s.push(Cmd::Position { fen: Some(c.m.fen()), moves: vec![] });
    s.push(Cmd::Go { spec: JUDGED_GO.into(), wait: true });
    s.push(Cmd::Quit);
    s
}

pub fn run_case(bin: &str, c: &Case, script: &[Cmd], rep: &mut Report) -> bool {
    let fresh_script = vec![Cmd::Uci, Cmd::Position { fen: Some(c.m.fen()), moves: vec![] }, Cmd::Go { spec: JUDGED_GO.into(), wait: true }, Cmd::Quit];
    let key = Pos::lan(&c.k);
    // precondition in a fresh process; if it fails the case belongs to C06/C07
    match final_answer(bin, &fresh_script) {
        Ok((Some(true), mv, _)) if mv == key => {}
        Ok(other) => {
            rep.count("precondition_failed_left_to_C06", 1);
            rep.note(&format!("fresh process on {} answered {:?}, expected mate score and {}", c.m.fen(), (other.0, other.1), key));
            return true;
        }
        Err(e) => {
            rep.count("fresh_session_failed_left_to_C07", 1);
            rep.note(&e);
            return true;
        }
    }
    rep.eval(1);
    rep.count("histories", 1);
    if c.x.legal_moves().is_empty() {
        rep.count("histories_with_a_final_position_searched_earlier", 1);
    }
    if script.iter().any(|c| matches!(c, Cmd::Raw(l) if l.matches("ucinewgame").count() >= 254)) {
        rep.count("histories_with_255_or_more_new_games_in_a_row", 1);
    }
    let text: Vec<String> = script.iter().map(cmd_text).collect();
    match final_answer(bin, script) {
        Ok((mate, mv, tail)) => {
            if mate != Some(true) || mv != key {
                rep.violation(
                    "newgame-not-clean",
                    &format!("newgame-not-clean|{}", text.join(";")),
                    &format!("after ucinewgame, position fen {} + go depth 4 answered bestmove {} (mate score: {:?}); a fresh process answers {} with a mate score\nsession: {}\nlog tail:\n{}", c.m.fen(), mv, mate, key, text.join(" ; "), tail.join("\n")),
                    json!({"script": script_to_json(script), "m": c.m.fen(), "key": key}),
                );
                return false;
            }
            rep.distinct(fnv(&text.join(";")));
            true
        }
        Err(e) => {
            rep.count("history_session_failed_left_to_C07", 1);
            rep.note(&e);
            true
        }
    }
}

pub fn run(ctx: &Ctx, rep: &mut Report) {
    let Some(bin) = ctx.bin.clone() else {
        rep.inconclusive("no weechess binary given");
        return;
    };
    if let Some(path) = &ctx.replay {
        let v: Value = serde_json::from_slice(&std::fs::read(path).expect("replay file")).expect("replay json");
        let script = crate::mon::c07::script_from_json(&v["script"]);
        let m = Pos::from_fen(v["m"].as_str().unwrap()).unwrap();
        let k = m.legal_moves().into_iter().find(|o| Pos::lan(o) == v["key"].as_str().unwrap()).unwrap();
        let c = Case { x: m.make(&k), m, k };
        run_case(&bin, &c, &script, rep);
        return;
    }
    let Some(tb) = build_tb(rep) else { return };
    let mut rng = gen::shard_rng(ctx.seed, ctx.shard, 18);
    let mut n = ctx.n(40, 1_000);
    while n > 0 && ctx.time_left() {
        let c = find_case(&mut rng, &tb);
        let script = history(&mut rng, &c, &tb);
        run_case(&bin, &c, &script, rep);
        if rep.samples.len() < 3 {
            rep.sample(json!({"M": c.m.fen(), "unique_key_move": Pos::lan(&c.k), "history": script.iter().map(cmd_text).collect::<Vec<_>>()}));
        }
        n -= 1;
    }
    let _ = [0].choose(&mut rng);
}
