//! C11 — FEN text and positions round-trip.

use crate::conv::*;
use crate::gen;
use crate::oracle::rules::*;
use crate::report::{Ctx, Report};
use crate::util::guard;
use rand::{Rng, SeedableRng};
use serde_json::json;
use weechess_core::{
    notation::{into_notation, try_from_notation, Fen},
    Color, MoveGenerator, State, ZobristHasher,
};
use weechess_engine::eval::Evaluator;

pub const COUNTERS: [u64; 16] = [0, 1, 49, 50, 99, 100, 101, 5949, (1 << 31) - 1, (1 << 32) - 1, (1 << 63) - 1, 1 << 63, 9_999_999_999_999_999_999, 10_000_000_000_000_000_000, u64::MAX - 1, u64::MAX];

fn moves_of(st: &State) -> Vec<OMove> {
    let mut v: Vec<OMove> = MoveGenerator::compute_legal_moves(st).moves().iter().map(|m| to_omove(&m.0)).collect();
    v.sort();
    v
}

/// `st` was reached by play and must describe `p`
pub fn check_reached(p: &Pos, st: &State, hashers: &[ZobristHasher], ev: &Evaluator, rep: &mut Report) -> bool {
    let want = p.fen();
    let r = guard(|| into_notation::<_, Fen>(st).to_string());
    rep.eval(1);
    let text = match r {
        Ok(t) => t,
        Err(e) => {
            rep.violation("fen-write-panic", &format!("fen-write-panic|{}", want), &e, json!({"fen": want}));
            return false;
        }
    };
    if text != want {
        rep.violation("fen-write", &format!("fen-write|{}", want), &format!("weechess writes '{}', independent writer '{}'", text, want), json!({"fen": want}));
        return false;
    }
    let back = match guard(|| try_from_notation::<State, Fen>(&text)) {
        Ok(Ok(s)) => s,
        Ok(Err(_)) => {
            rep.violation("fen-read", &format!("fen-read|{}", want), "own FEN output rejected by the reader", json!({"fen": want}));
            return false;
        }
        Err(e) => {
            rep.violation("fen-read-panic", &format!("fen-read-panic|{}", want), &e, json!({"fen": want}));
            return false;
        }
    };
    let again = into_notation::<_, Fen>(&back).to_string();
    if again != text {
        rep.violation("fen-round-trip", &format!("fen-round-trip|{}", want), &format!("read back and written again: '{}'", again), json!({"fen": want}));
        return false;
    }
    if to_pos(&back) != *p {
        rep.violation("fen-round-trip", &format!("fen-round-trip|{}", want), &format!("read back position differs in {}", crate::mon::c02::diff(&to_pos(&back), p)), json!({"fen": want}));
        return false;
    }
    if moves_of(&back) != moves_of(st) {
        rep.violation("fen-round-trip-moves", &format!("fen-round-trip-moves|{}", want), "legal moves differ after the round trip", json!({"fen": want}));
        return false;
    }
    for h in hashers {
        if h.hash(&back) != h.hash(st) {
            rep.violation("fen-round-trip-hash", &format!("fen-round-trip-hash|{}", want), "hash differs after the round trip", json!({"fen": want}));
            return false;
        }
    }
    if p.count(6) == 1 && p.count(-6) == 1 {
        for c in [Color::White, Color::Black] {
            if ev.evaluate(&back, c, 3) != ev.evaluate(st, c, 3) {
                rep.violation("fen-round-trip-eval", &format!("fen-round-trip-eval|{}", want), "evaluation differs after the round trip", json!({"fen": want}));
                return false;
            }
        }
    }
    rep.distinct(p.key_hash());
    if p.ep.is_some() {
        rep.count("reached_with_en_passant_target", 1);
    }
    true
}

/// canonical string from the independent writer: read, write back, must be identical
pub fn check_canonical(text: &str, rep: &mut Report) -> bool {
    rep.eval(1);
    match guard(|| try_from_notation::<State, Fen>(text).map(|s| into_notation::<_, Fen>(&s).to_string())) {
        Ok(Ok(t)) if t == text => {
            rep.distinct(crate::report::fnv(text));
            true
        }
        Ok(Ok(t)) => {
            rep.violation("fen-canonical", &format!("fen-canonical|{}", text), &format!("written back as '{}'", t), json!({"text": text}));
            false
        }
        Ok(Err(_)) => {
            rep.violation("fen-canonical-rejected", &format!("fen-canonical-rejected|{}", text), "canonical FEN of a legal position rejected", json!({"text": text}));
            false
        }
        Err(e) => {
            rep.violation("fen-read-panic", &format!("fen-read-panic|{}", text), &e, json!({"text": text}));
            false
        }
    }
}

pub fn run(ctx: &Ctx, rep: &mut Report) {
    let mut rng = gen::shard_rng(ctx.seed, ctx.shard, 11);
    let ev = Evaluator::default();
    let hashers: Vec<ZobristHasher> = (0..3u64).map(|i| ZobristHasher::with(&mut rand_chacha::ChaCha8Rng::seed_from_u64(ctx.seed * 31 + i))).collect();
    if let Some(path) = &ctx.replay {
        let v: serde_json::Value = serde_json::from_slice(&std::fs::read(path).expect("replay file")).expect("replay json");
        if let Some(t) = v.get("text").and_then(|t| t.as_str()) {
            check_canonical(t, rep);
        } else {
            let p = Pos::from_fen(v["fen"].as_str().unwrap()).expect("replay fen");
            check_reached(&p, &to_state(&p), &hashers, &ev, rep);
            check_canonical(&p.fen(), rep);
        }
        return;
    }
    let corpus = gen::corpus();
    for (i, p) in corpus.iter().enumerate() {
        if ctx.mine(i as u64) {
            check_reached(p, &to_state(p), &hashers, &ev, rep);
            check_canonical(&p.fen(), rep);
        }
    }
    // positions reached by play, advanced in lock-step through weechess' own successors
    let mut n = ctx.n(80_000, 3_000_000);
    while n > 0 && ctx.time_left() {
        let mut start = if rng.gen_bool(0.5) { Pos::start() } else { corpus[rng.gen_range(0..corpus.len())].clone() };
        if rng.gen_bool(0.15) {
            // play that starts from extreme counters (the oracle saturates at the top like the engine)
            start.half = COUNTERS[rng.gen_range(8..COUNTERS.len())];
            start.full = COUNTERS[rng.gen_range(8..COUNTERS.len())];
            rep.count("games_started_with_extreme_counters", 1);
        }
        let plies = rng.gen_range(10..200);
        let mut pos = start.clone();
        let mut st = to_state(&start);
        let mut ok = true;
        for _ in 0..plies {
            if !check_reached(&pos, &st, &hashers, &ev, rep) {
                ok = false;
                break;
            }
            n = n.saturating_sub(1);
            let legal = pos.legal_moves();
            if legal.is_empty() {
                break;
            }
            let m = gen::pick_move(&mut rng, &pos, &legal);
            let ms = MoveGenerator::compute_legal_moves(&st);
            let Some(mr) = ms.moves().iter().find(|x| {
                let w = to_omove(&x.0);
                w.from == m.from && w.to == m.to && w.promo == m.promo
            }) else {
                break;
            };
            pos = pos.make(&m);
            st = mr.1.clone();
            if to_pos(&st) != pos {
                rep.count("successor_mismatch_skipped", 1);
                break;
            }
        }
        if ok && rep.samples.is_empty() {
            rep.sample(json!({"reached": pos.fen()}));
        }
    }
    // canonical strings: all rights subsets the placement allows, ep on both ranks, extreme counters
    let mut n = ctx.n(80_000, 3_000_000);
    while n > 0 && ctx.time_left() {
        let p = gen::sample(&mut rng);
        let mut allowed = 0u8;
        for (bit, ksq, rsq, k, r) in [(WK, 4usize, 7usize, 6i8, 4i8), (WQ, 4, 0, 6, 4), (BK, 60, 63, -6, -4), (BQ, 60, 56, -6, -4)] {
            if p.b[ksq] == k && p.b[rsq] == r {
                allowed |= bit;
            }
        }
        for sub in 0..16u8 {
            if sub & !allowed != 0 {
                continue;
            }
            let mut q = p.clone();
            q.castle = sub;
            q.half = COUNTERS[rng.gen_range(0..COUNTERS.len())];
            q.full = COUNTERS[rng.gen_range(0..COUNTERS.len())];
            let t = q.fen();
            if check_canonical(&t, rep) {
                rep.count(&format!("rights_sets_with_{}_rights", sub.count_ones()), 1);
                if q.ep.is_some() {
                    rep.count(if q.wtm { "ep_on_rank_6" } else { "ep_on_rank_3" }, 1);
                }
                if q.half >= (1 << 31) - 1 || q.full >= (1 << 31) - 1 {
                    if q.half >= 10_000_000_000_000_000_000 || q.full >= 10_000_000_000_000_000_000 {
                        rep.count("twenty_digit_counters", 1);
                    }
                    rep.count("extreme_counters", 1);
                }
                if rep.samples.len() < 4 && sub.count_ones() >= 3 && q.ep.is_some() {
                    rep.sample(json!({"canonical": t}));
                }
            }
            n = n.saturating_sub(1);
        }
    }
    // both ep ranks with every file, explicitly
    for p in gen::ep_family(&mut rng, ctx.n(5_000, 200_000) as usize) {
        check_canonical(&p.fen(), rep);
        check_reached(&p, &to_state(&p), &hashers, &ev, rep);
        rep.count(if p.wtm { "ep_on_rank_6" } else { "ep_on_rank_3" }, 1);
    }
    for (i, p) in gen::castling_family().iter().enumerate() {
        if ctx.mine(i as u64) && i % 4 == 0 {
            check_canonical(&p.fen(), rep);
        }
    }
}
