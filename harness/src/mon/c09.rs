//! C09 — attack lookup tables equal board geometry; exhaustive over (square, ray subset).

use crate::conv::*;
use crate::gen;
use crate::oracle::rules::{at, file, rank, sq_name, DIAG, KING, KNIGHT, ORTHO};
use crate::report::{Ctx, Report};
use crate::util::guard;
use rand::Rng;
use serde_json::json;
use weechess_core::{AttackGenerator, BitBoard, Color, Piece, PieceIndex};

fn ray_squares(s: u8, dirs: &[(i32, i32)]) -> Vec<u8> {
    let mut v = vec![];
    for (df, dr) in dirs {
        let (mut f, mut r) = (file(s) + df, rank(s) + dr);
        while let Some(t) = at(f, r) {
            v.push(t);
            f += df;
            r += dr;
        }
    }
    v
}

pub fn ray_walk(s: u8, occ: u64, dirs: &[(i32, i32)]) -> u64 {
    let mut a = 0u64;
    for (df, dr) in dirs {
        let (mut f, mut r) = (file(s) + df, rank(s) + dr);
        while let Some(t) = at(f, r) {
            a |= 1 << t;
            if occ & (1 << t) != 0 {
                break;
            }
            f += df;
            r += dr;
        }
    }
    a
}

fn leaper(s: u8, offs: &[(i32, i32)]) -> u64 {
    let mut a = 0u64;
    for (df, dr) in offs {
        // explicit edge tests
        let (f, r) = (file(s) + df, rank(s) + dr);
        if f >= 0 && f <= 7 && r >= 0 && r <= 7 {
            a |= 1u64 << (r * 8 + f);
        }
    }
    a
}

fn slider_case(kind: &str, s: u8, occ: u64, rep: &mut Report) -> bool {
    let want_r = ray_walk(s, occ, &ORTHO);
    let want_b = ray_walk(s, occ, &DIAG);
    let o = BitBoard::new(occ);
    let got = guard(|| match kind {
        "rook" => bb(AttackGenerator::compute_rook_attacks(sq(s), o)),
        "bishop" => bb(AttackGenerator::compute_bishop_attacks(sq(s), o)),
        _ => bb(AttackGenerator::compute_queen_attacks(sq(s), o)),
    });
    let want = match kind {
        "rook" => want_r,
        "bishop" => want_b,
        _ => want_r | want_b,
    };
    rep.eval(1);
    match got {
        Ok(g) if g == want => {
            if kind != "queen" {
                rep.distinct(crate::report::mix(occ, ((s as u64) << 8) | kind.len() as u64));
            }
            true
        }
        Ok(g) => {
            rep.violation("slider-attacks", &format!("slider-attacks|{}|{}|{:#x}", kind, sq_name(s), occ), &format!("{} on {} with occupancy {:#018x}: table {:#018x}, geometry {:#018x}", kind, sq_name(s), occ, g, want), json!({"kind": kind, "square": s, "occupancy": occ}));
            false
        }
        Err(e) => {
            rep.violation("attacks-panic", &format!("attacks-panic|{}|{}|{:#x}", kind, sq_name(s), occ), &e, json!({"kind": kind, "square": s, "occupancy": occ}));
            false
        }
    }
}

fn subsets_of(squares: &[u8], mut f: impl FnMut(u64) -> bool) {
    let n = squares.len();
    for m in 0u32..(1u32 << n) {
        let mut occ = 0u64;
        for (i, s) in squares.iter().enumerate() {
            if m & (1 << i) != 0 {
                occ |= 1 << s;
            }
        }
        if !f(occ) {
            return;
        }
    }
}

pub fn run(ctx: &Ctx, rep: &mut Report) {
    let mut rng = gen::shard_rng(ctx.seed, ctx.shard, 9);
    if let Some(path) = &ctx.replay {
        let v: serde_json::Value = serde_json::from_slice(&std::fs::read(path).expect("replay file")).expect("replay json");
        let s = v["square"].as_u64().unwrap() as u8;
        match v["kind"].as_str().unwrap() {
            k @ ("rook" | "bishop" | "queen") => {
                slider_case(k, s, v["occupancy"].as_u64().unwrap(), rep);
            }
            _ => leapers(s, rep),
        }
        return;
    }
    for s in 0..64u8 {
        if !ctx.mine(s as u64) {
            continue;
        }
        leapers(s, rep);
        for (kind, dirs) in [("rook", &ORTHO[..]), ("bishop", &DIAG[..])] {
            let rays = ray_squares(s, dirs);
            let ray_mask: u64 = rays.iter().fold(0, |a, s| a | 1 << s);
            let mut ok = true;
            let mut n = 0u64;
            subsets_of(&rays, |occ| {
                n += 1;
                // the exact subset, the subset plus off-ray noise, and plus the own square
                ok &= slider_case(kind, s, occ, rep);
                let noise = rng.gen::<u64>() & !ray_mask;
                ok &= slider_case(kind, s, occ | noise, rep);
                if n % 16 == 0 {
                    ok &= slider_case(kind, s, occ | (1 << s), rep);
                    ok &= slider_case("queen", s, occ | (rng.gen::<u64>() & rng.gen::<u64>()), rep);
                }
                rep.violation_count < 20
            });
            rep.count(&format!("{}_ray_subsets", kind), n);
            if s % 9 == 0 && kind == "rook" {
                rep.sample(json!({"square": sq_name(s), "piece": kind, "ray_squares": rays.len(), "subsets": n}));
            }
            let _ = ok;
        }
        // queen on fully random occupancies
        for _ in 0..20_000 {
            let occ = rng.gen::<u64>() & rng.gen::<u64>();
            slider_case("queen", s, occ, rep);
        }
        rep.count("queen_random_occupancies", 20_000);
    }
}

fn leapers(s: u8, rep: &mut Report) {
    let cases: Vec<(&str, u64, Result<u64, String>)> = vec![
        ("knight", leaper(s, &KNIGHT), guard(|| bb(AttackGenerator::compute_knight_attacks(sq(s))))),
        ("king", leaper(s, &KING), guard(|| bb(AttackGenerator::compute_king_attacks(sq(s))))),
        ("white-pawn", leaper(s, &[(-1, 1), (1, 1)]), guard(|| bb(AttackGenerator::compute_pawn_attacks(sq(s), Color::White)))),
        ("black-pawn", leaper(s, &[(-1, -1), (1, -1)]), guard(|| bb(AttackGenerator::compute_pawn_attacks(sq(s), Color::Black)))),
        // the dispatching entry point
        ("dispatch-knight", leaper(s, &KNIGHT), guard(|| bb(AttackGenerator::compute(PieceIndex::new(Color::Black, Piece::Knight), sq(s), BitBoard::new(!0))))),
        ("dispatch-king", leaper(s, &KING), guard(|| bb(AttackGenerator::compute(PieceIndex::new(Color::White, Piece::King), sq(s), BitBoard::new(0))))),
        ("dispatch-white-pawn", leaper(s, &[(-1, 1), (1, 1)]), guard(|| bb(AttackGenerator::compute(PieceIndex::new(Color::White, Piece::Pawn), sq(s), BitBoard::new(0))))),
        ("dispatch-black-pawn", leaper(s, &[(-1, -1), (1, -1)]), guard(|| bb(AttackGenerator::compute(PieceIndex::new(Color::Black, Piece::Pawn), sq(s), BitBoard::new(0))))),
        ("dispatch-rook", ray_walk(s, 0x0042_0000_1800_2400, &ORTHO), guard(|| bb(AttackGenerator::compute(PieceIndex::new(Color::Black, Piece::Rook), sq(s), BitBoard::new(0x0042_0000_1800_2400))))),
        ("dispatch-bishop", ray_walk(s, 0x0042_0000_1800_2400, &DIAG), guard(|| bb(AttackGenerator::compute(PieceIndex::new(Color::White, Piece::Bishop), sq(s), BitBoard::new(0x0042_0000_1800_2400))))),
        ("dispatch-queen", ray_walk(s, 0x0042_0000_1800_2400, &ORTHO) | ray_walk(s, 0x0042_0000_1800_2400, &DIAG), guard(|| bb(AttackGenerator::compute(PieceIndex::new(Color::White, Piece::Queen), sq(s), BitBoard::new(0x0042_0000_1800_2400))))),
    ];
    for (kind, want, got) in cases {
        rep.eval(1);
        rep.count("leaper_and_dispatch_lookups", 1);
        match got {
            Ok(g) if g == want => {}
            Ok(g) => rep.violation("leaper-attacks", &format!("leaper-attacks|{}|{}", kind, sq_name(s)), &format!("{} on {}: table {:#018x}, geometry {:#018x}", kind, sq_name(s), g, want), json!({"kind": kind, "square": s})),
            Err(e) => rep.violation("attacks-panic", &format!("attacks-panic|{}|{}", kind, sq_name(s)), &e, json!({"kind": kind, "square": s})),
        }
    }
    rep.distinct(1000 + s as u64);
}
