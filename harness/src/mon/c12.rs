//! C12 — move text resolves to exactly the intended move; coordinate text is from+to+promotion.

use crate::conv::*;
use crate::gen;
use crate::oracle::rules::*;
use crate::pgn;
use crate::report::{mix, Ctx, Report};
use crate::util::guard;
use rand::Rng;
use serde_json::json;
use weechess_core::{
    notation::{into_notation, lan::Lan, try_from_notation, San},
    MoveGenerator, MoveQuery, MoveSet, Piece, Square, State,
};

/// the query the UCI loop builds from coordinate text (origin, destination, optional letter)
fn query_from_lan(text: &str) -> Option<MoveQuery> {
    let o = Square::try_from(text.get(0..2)?).ok()?;
    let d = Square::try_from(text.get(2..4)?).ok()?;
    let mut q = MoveQuery::by_moving_from_to(o, d);
    if let Some(c) = text.chars().nth(4) {
        q.set_promotion(match c {
            'q' => Piece::Queen,
            'r' => Piece::Rook,
            'b' => Piece::Bishop,
            'n' => Piece::Knight,
            _ => return None,
        });
    }
    Some(q)
}

fn resolve(set: &MoveSet, text: &str) -> Result<Result<Vec<OMove>, ()>, String> {
    guard(|| match try_from_notation::<MoveQuery, San>(text) {
        Ok(q) => Ok(set.filter(q).map(|m| to_omove(&m.0)).collect::<Vec<_>>()),
        Err(_) => Err(()),
    })
}

pub fn check_position(p: &Pos, every: usize, rng: &mut gen::R, rep: &mut Report) -> bool {
    let st: State = to_state(p);
    let fen = p.fen();
    let legal = p.legal_moves();
    let Ok(set) = guard(|| MoveGenerator::compute_legal_moves(&st)) else {
        rep.count("movegen_panic_skipped", 1);
        return true;
    };
    let mut wm: Vec<OMove> = set.moves().iter().map(|m| to_omove(&m.0)).collect();
    wm.sort();
    let mut lm = legal.clone();
    lm.sort();
    if wm != lm {
        // a move generation defect is C01's business; text resolution is judged on agreeing sets only
        rep.count("move_set_mismatch_skipped", 1);
        return true;
    }
    let off = rng.gen_range(0..every.max(1));
    for (i, om) in legal.iter().enumerate() {
        if every > 1 && i % every != off && om.promo.is_none() && om.castle.is_none() && !om.ep {
            continue;
        }
        let spellings = p.san_spellings(om, &legal);
        for s in spellings.iter() {
            rep.eval(1);
            match resolve(&set, s) {
                Ok(Ok(hits)) if hits.len() == 1 && hits[0] == *om => {}
                Ok(Ok(hits)) => {
                    rep.violation("san-resolve", &format!("san-resolve|{}|{}", fen, s), &format!("'{}' (meaning {}) matches {:?}", s, omove_str(om), hits.iter().map(omove_str).collect::<Vec<_>>()), json!({"fen": fen, "text": s}));
                    return false;
                }
                Ok(Err(())) => {
                    rep.violation("san-parse", &format!("san-parse|{}|{}", fen, s), &format!("admissible spelling '{}' of {} does not parse", s, omove_str(om)), json!({"fen": fen, "text": s}));
                    return false;
                }
                Err(e) => {
                    rep.violation("san-panic", &format!("san-panic|{}", s), &e, json!({"fen": fen, "text": s}));
                    return false;
                }
            }
        }
        // the same text through State::by_performing_moves (the consumer the opening-book build uses for SAN): the
        // shortest spelling and one other, applied to the state, must arrive at the successor of exactly that move
        if !spellings.is_empty() {
            let shortest = spellings.iter().min_by_key(|s| s.len()).unwrap();
            let other = &spellings[rng.gen_range(0..spellings.len())];
            for s in [shortest, other] {
                let Ok(q) = try_from_notation::<MoveQuery, San>(s) else { continue };
                match guard(|| State::by_performing_moves(&st, &[q])) {
                    Ok(Ok(after)) => {
                        let want = p.make(om);
                        let got = crate::conv::to_pos(&after);
                        if got.b != want.b || got.wtm != want.wtm || got.castle != want.castle {
                            rep.violation("san-resolve", &format!("san-resolve|apply|{}|{}", fen, s), &format!("'{}' applied through by_performing_moves gives {}, {} leads to {}", s, got.fen(), omove_str(om), want.fen()), json!({"fen": fen, "text": s}));
                            return false;
                        }
                    }
                    Ok(Err(e)) => {
                        rep.violation("san-resolve", &format!("san-resolve|apply|{}|{}", fen, s), &format!("'{}' (the notation of the legal move {}) is refused by by_performing_moves: {:?}", s, omove_str(om), e), json!({"fen": fen, "text": s}));
                        return false;
                    }
                    Err(e) => {
                        rep.violation("san-panic", &format!("san-panic|apply|{}", s), &e, json!({"fen": fen, "text": s}));
                        return false;
                    }
                }
                rep.count("san_texts_applied", 1);
            }
        }
        rep.count("spellings", spellings.len() as u64);
        if spellings.len() > 2 || om.promo.is_some() || om.castle.is_some() {
            rep.distinct(mix(p.key_hash(), (om.from as u64) << 16 | (om.to as u64) << 8 | om.promo.map(|k| k as u64).unwrap_or(0)));
        }
        // disambiguation really needed?
        if om.piece != Kind::P && om.piece != Kind::K && legal.iter().any(|o| o.piece == om.piece && o.to == om.to && o.from != om.from) {
            rep.count("moves_needing_disambiguation", 1);
        }
        // coordinate notation
        let mr = set.moves().iter().find(|m| to_omove(&m.0) == *om).unwrap();
        rep.eval(1);
        match guard(|| into_notation::<_, Lan>(&mr.0).to_string()) {
            Ok(text) => {
                if text != Pos::lan(om) {
                    rep.violation("lan-write", &format!("lan-write|{}|{}", fen, Pos::lan(om)), &format!("written '{}', expected '{}'", text, Pos::lan(om)), json!({"fen": fen, "text": Pos::lan(om)}));
                    return false;
                }
                let sel: Vec<OMove> = match query_from_lan(&text) {
                    Some(q) => set.filter(q).map(|m| to_omove(&m.0)).collect(),
                    None => vec![],
                };
                if sel.len() != 1 || sel[0] != *om {
                    rep.violation("lan-select", &format!("lan-select|{}|{}", fen, text), &format!("'{}' selects {:?}", text, sel.iter().map(omove_str).collect::<Vec<_>>()), json!({"fen": fen, "text": text}));
                    return false;
                }
                // the same text through the path the UCI loop uses: State::by_performing_moves must accept it and
                // arrive at the successor of exactly that move
                if let Some(q) = query_from_lan(&text) {
                    match guard(|| State::by_performing_moves(&st, &[q])) {
                        Ok(Ok(after)) => {
                            let want = p.make(om);
                            let got = crate::conv::to_pos(&after);
                            if got.b != want.b || got.wtm != want.wtm || got.castle != want.castle {
                                rep.violation("lan-select", &format!("lan-select|apply|{}|{}", fen, text), &format!("'{}' applied through by_performing_moves gives {}, the move leads to {}", text, got.fen(), want.fen()), json!({"fen": fen, "text": text}));
                                return false;
                            }
                        }
                        Ok(Err(e)) => {
                            rep.violation("lan-select", &format!("lan-select|apply|{}|{}", fen, text), &format!("'{}' (written for a legal move) is refused by by_performing_moves: {:?}", text, e), json!({"fen": fen, "text": text}));
                            return false;
                        }
                        Err(e) => {
                            rep.violation("lan-panic", &format!("lan-panic|apply|{}", fen), &e, json!({"fen": fen, "text": text}));
                            return false;
                        }
                    }
                    rep.count("coordinate_texts_applied", 1);
                }
                rep.count("coordinate_texts", 1);
            }
            Err(e) => {
                rep.violation("lan-panic", &format!("lan-panic|{}", fen), &e, json!({"fen": fen}));
                return false;
            }
        }
    }
    // negative cases: pseudo-legal but illegal moves, written with the full origin square
    for om in p.illegal_pseudo_moves() {
        let s = p.san_full(&om);
        // the text must not denote a legal move (pawn and castling text carries no origin)
        if legal.iter().any(|lm| p.san_spellings(lm, &legal).contains(&s)) {
            continue;
        }
        rep.eval(1);
        rep.count("negative_cases", 1);
        match resolve(&set, &s) {
            Ok(Ok(hits)) if hits.is_empty() => {}
            Ok(Err(())) => {}
            Ok(Ok(hits)) => {
                rep.violation("san-negative", &format!("san-negative|{}|{}", fen, s), &format!("text of the illegal move {} matches {:?}", omove_str(&om), hits.iter().map(omove_str).collect::<Vec<_>>()), json!({"fen": fen, "text": s}));
                return false;
            }
            Err(e) => {
                rep.violation("san-panic", &format!("san-panic|{}", s), &e, json!({"fen": fen, "text": s}));
                return false;
            }
        }
    }
    true
}

/// real-world corpus: the SAN tokens of the book games
fn book_tokens(ctx: &Ctx, plies: usize, rep: &mut Report) {
    let games = match pgn::read_dir(&format!("{}/book", std::env::var("VERIF_REPO").unwrap_or_else(|_| "/repo".into()))) {
        Ok(g) => g,
        Err(e) => {
            rep.inconclusive(&format!("book directory unreadable: {}", e));
            return;
        }
    };
    for (gi, g) in games.iter().enumerate() {
        if !ctx.mine(gi as u64) {
            continue;
        }
        let mut p = Pos::start();
        for tok in g.san.iter().take(plies) {
            let om = match pgn::resolve(&p, tok) {
                Ok(m) => m,
                Err(n) => {
                    rep.count("book_tokens_unresolved_by_oracle", 1);
                    rep.note(&format!("oracle resolves '{}' in {} game {} to {} moves", tok, g.file, g.index, n));
                    break;
                }
            };
            let st = to_state(&p);
            let set = MoveGenerator::compute_legal_moves(&st);
            rep.eval(1);
            rep.count("book_tokens", 1);
            match resolve(&set, tok) {
                Ok(Ok(hits)) if hits.len() == 1 && hits[0] == om => {}
                Ok(Ok(hits)) => {
                    rep.violation("san-resolve", &format!("san-resolve|{}|{}", p.fen(), tok), &format!("book token '{}' (meaning {}) matches {:?}", tok, omove_str(&om), hits.iter().map(omove_str).collect::<Vec<_>>()), json!({"fen": p.fen(), "text": tok}));
                    break;
                }
                Ok(Err(())) => {
                    rep.violation("san-parse", &format!("san-parse|{}|{}", p.fen(), tok), "book token does not parse", json!({"fen": p.fen(), "text": tok}));
                    break;
                }
                Err(e) => {
                    rep.violation("san-panic", &format!("san-panic|{}", tok), &e, json!({"fen": p.fen(), "text": tok}));
                    break;
                }
            }
            p = p.make(&om);
        }
        rep.count("book_games", 1);
    }
}

pub fn run(ctx: &Ctx, rep: &mut Report) {
    let mut rng = gen::shard_rng(ctx.seed, ctx.shard, 12);
    if let Some(path) = &ctx.replay {
        let v: serde_json::Value = serde_json::from_slice(&std::fs::read(path).expect("replay file")).expect("replay json");
        let p = Pos::from_fen(v["fen"].as_str().unwrap()).expect("replay fen");
        check_position(&p, 1, &mut rng, rep);
        return;
    }
    let corpus = gen::corpus();
    for (i, p) in corpus.iter().enumerate() {
        if ctx.mine(i as u64) {
            check_position(p, 1, &mut rng, rep);
        }
    }
    book_tokens(ctx, if ctx.thorough() { 400 } else { 30 }, rep);
    let mut n = ctx.n(80_000, 4_000_000);
    while n > 0 && ctx.time_left() {
        let start = if rng.gen_bool(0.5) { Pos::start() } else { corpus[rng.gen_range(0..corpus.len())].clone() };
        let plies = rng.gen_range(10..200);
        let (game, last) = gen::play(&mut rng, &start, plies);
        for (p, _) in game.iter() {
            if !check_position(p, 3, &mut rng, rep) {
                return;
            }
            n = n.saturating_sub(1);
        }
        check_position(&last, 1, &mut rng, rep);
    }
    let mut n = ctx.n(60_000, 4_000_000);
    while n > 0 && ctx.time_left() {
        let p = gen::sample(&mut rng);
        // sampled positions have many same-kind pieces: disambiguation-heavy
        check_position(&p, 2, &mut rng, rep);
        n -= 1;
        if rep.samples.len() < 3 {
            let legal = p.legal_moves();
            if let Some(m) = legal.iter().find(|m| p.san_spellings(m, &legal).len() >= 4) {
                rep.sample(json!({"fen": p.fen(), "move": omove_str(m), "spellings": p.san_spellings(m, &legal)}));
            }
        }
    }
    for p in gen::ep_family(&mut rng, ctx.n(4_000, 200_000) as usize).iter() {
        check_position(p, 1, &mut rng, rep);
    }
    // castling that gives check or mate (suffixes on O-O / O-O-O), promotions that give check
    for p in gen::castle_check_family(&mut rng, ctx.n(3_000, 150_000) as usize).iter() {
        check_position(p, 1, &mut rng, rep);
        rep.count("castling_gives_check_positions", 1);
        if let Some(m) = p.legal_moves().iter().find(|m| m.castle.is_some()) {
            let c = p.make(m);
            if c.legal_moves().is_empty() {
                rep.count("castling_gives_mate_positions", 1);
            }
        }
    }
    for p in gen::promotion_check_family(&mut rng, ctx.n(3_000, 150_000) as usize).iter() {
        check_position(p, 1, &mut rng, rep);
        rep.count("promotion_family_positions", 1);
    }
}
