//! C03 — search reports only legal, non-empty lines, at least one per search, whatever the
//! configuration, schedule and history of the reused search memory.

use crate::gen;
use crate::oracle::rules::*;
use crate::report::{mix, Ctx, Report};
use crate::scenario::{Scenario, Step, StepResult};
use crate::srch;
use rand::{seq::SliceRandom, Rng};
use serde_json::json;
use weechess_engine::eval::Evaluator;

pub const GEOMETRIES: [(usize, usize); 6] = [(1, 1), (1, 2), (2, 5), (3, 7), (8, 64), (128, 1024)];
pub const WORKERS: [usize; 7] = [1, 2, 3, 4, 8, 16, 32];

pub fn pick_depth(rng: &mut gen::R, men: usize) -> usize {
    let r = rng.gen_range(0..100);
    let d = match r {
        0..=29 => 1,
        30..=59 => 2,
        60..=84 => 3,
        85..=96 => 4,
        _ => 5,
    };
    if men > 16 {
        d.min(3)
    } else if men > 8 {
        d.min(4)
    } else {
        d
    }
}

/// a root with at least one legal move
pub fn random_root(rng: &mut gen::R, corpus: &[Pos]) -> Pos {
    loop {
        let p = match rng.gen_range(0..10) {
            0..=3 => gen::sample(rng),
            4..=5 => corpus[rng.gen_range(0..corpus.len())].clone(),
            _ => {
                let start = if rng.gen_bool(0.6) { Pos::start() } else { corpus[rng.gen_range(0..corpus.len())].clone() };
                let plies = rng.gen_range(0..80);
                gen::play(rng, &start, plies).1
            }
        };
        // roots whose capture search is predicted to explode belong to known finding F11 (C04);
        // they would only burn the time box here
        if !p.legal_moves().is_empty() && p.imbalance() < 60.0 && gen::q_cost(&p, 300_000) < 300_000 {
            return p;
        }
    }
}

fn random_geometry(rng: &mut gen::R) -> (usize, usize) {
    *GEOMETRIES.choose(rng).unwrap()
}

fn perturb(rng: &mut gen::R, s: &mut Step) {
    if s.workers.unwrap_or(1) >= 2 {
        match rng.gen_range(0..4) {
            0 => s.delay = Some((rng.gen(), [64u64, 1024, 8192, 30000][rng.gen_range(0..4)])),
            1 => s.stall = Some((rng.gen_range(0..s.workers.unwrap().min(4)), rng.gen_range(1..200), rng.gen_range(1000..5000))),
            2 => {
                s.delay = Some((rng.gen(), 2048));
                s.stall = Some((rng.gen_range(0..2), rng.gen_range(1..50), rng.gen_range(1000..3000)));
            }
            _ => {}
        }
    }
}

/// positions from the opening phase of a random game in which the side to move may castle
fn castle_root(rng: &mut gen::R) -> Option<Pos> {
    for _ in 0..50 {
        let plies = rng.gen_range(6..40);
        let (game, _) = gen::play(rng, &Pos::start(), plies);
        let cands: Vec<&Pos> = game.iter().map(|(p, _)| p).filter(|p| p.legal_moves().iter().any(|m| m.castle.is_some())).collect();
        if let Some(p) = cands.choose(rng) {
            return Some((*p).clone());
        }
    }
    None
}

/// first move of the final line of a quick single-worker search from a fresh small memory
fn probe_first_move(rng: &mut gen::R, p: &Pos, depth: usize) -> Option<OMove> {
    let sc = Scenario { tables: 8, buckets: 1024, hasher_seed: rng.gen(), steps: vec![Step::new(&p.fen(), depth, 1, rng.gen())] };
    let mut first = None;
    sc.run(&Evaluator::default(), |_, _, res| {
        first = res.out.lines.last().and_then(|l| l.0.first().map(crate::conv::to_omove));
        true
    });
    first
}

/// a root in which the engine itself wants to castle (so that a stale entry would carry a castling move)
fn castle_preferring_root(rng: &mut gen::R, depth: usize) -> Option<Pos> {
    for _ in 0..12 {
        let p = castle_root(rng)?;
        if gen::q_cost(&p, 300_000) >= 300_000 {
            continue;
        }
        if let Some(m) = probe_first_move(rng, &p, depth) {
            if m.castle.is_some() {
                return Some(p);
            }
        }
    }
    None
}

pub fn make_scenario(rng: &mut gen::R, corpus: &[Pos], kind: &str) -> Scenario {
    let (tables, buckets) = random_geometry(rng);
    let mut sc = Scenario { tables, buckets, hasher_seed: rng.gen(), steps: vec![] };
    let w = |rng: &mut gen::R| *WORKERS.choose(rng).unwrap();
    match kind {
        "rights" => {
            // the same placement with different castling rights, searched in some order on one memory
            let d0 = rng.gen_range(2..=3);
            let preferred = if rng.gen_bool(0.6) { castle_preferring_root(rng, d0) } else { None };
            let p = preferred.or_else(|| castle_root(rng)).unwrap_or_else(|| random_root(rng, corpus));
            let mut variants = vec![p.clone()];
            let mine = if p.wtm { WK | WQ } else { BK | BQ };
            for mask in [mine, WK | BK, WQ | BQ, 0xf] {
                let mut q = p.clone();
                q.castle &= !mask;
                if q.castle != p.castle && !variants.iter().any(|v| v.castle == q.castle) {
                    variants.push(q);
                }
            }
            // deeper (or equal) first, so that the stored entries are deep enough to be trusted
            sc.steps.push(Step::new(&variants[0].fen(), d0, w(rng), rng.gen()));
            let mut rest: Vec<Pos> = variants[1..].to_vec();
            rest.shuffle(rng);
            for v in rest.iter().take(2) {
                sc.steps.push(Step::new(&v.fen(), rng.gen_range(1..=d0), w(rng), rng.gen()));
            }
            if rng.gen_bool(0.5) {
                sc.steps.push(Step::new(&variants[0].fen(), rng.gen_range(1..=d0), w(rng), rng.gen()));
            }
            // big tables keep the stale entries alive
            if rng.gen_bool(0.7) {
                sc.tables = 8;
                sc.buckets = 1024;
            }
        }
        "ep" => {
            let p = loop {
                let v = gen::ep_family(rng, 8);
                if let Some(p) = v.into_iter().find(|p| {
                    let mut q = p.clone();
                    q.ep = None;
                    p.ep_legal() && !q.legal_moves().is_empty()
                }) {
                    break p;
                }
            };
            let d0 = rng.gen_range(2..=4);
            let mut p = p;
            if rng.gen_bool(0.6) {
                // prefer a root in which the engine itself plays the en-passant capture
                for _ in 0..8 {
                    if probe_first_move(rng, &p, d0.min(3)).map(|m| m.ep).unwrap_or(false) {
                        break;
                    }
                    if let Some(c) = gen::ep_family(rng, 8).into_iter().find(|c| {
                        let mut q = c.clone();
                        q.ep = None;
                        c.ep_legal() && !q.legal_moves().is_empty() && gen::q_cost(c, 300_000) < 300_000
                    }) {
                        p = c;
                    }
                }
            }
            let mut q = p.clone();
            q.ep = None;
            let (a, b) = if rng.gen_bool(0.7) { (&p, &q) } else { (&q, &p) };
            sc.steps.push(Step::new(&a.fen(), d0, w(rng), rng.gen()));
            if !b.legal_moves().is_empty() {
                sc.steps.push(Step::new(&b.fen(), rng.gen_range(1..=d0), w(rng), rng.gen()));
            }
            if rng.gen_bool(0.7) {
                sc.tables = 8;
                sc.buckets = 1024;
            }
        }
        "backward" => {
            // a takeback: the position after a move is searched first, then the position before it, on one
            // memory (so a successor of the new root is in the history and scores as a draw)
            let a = random_root(rng, corpus);
            let legal = a.legal_moves();
            let s1 = a.make(legal.choose(rng).unwrap());
            if !s1.legal_moves().is_empty() {
                sc.steps.push(Step::new(&s1.fen(), rng.gen_range(1..=3), w(rng), rng.gen()));
            }
            sc.steps.push(Step::new(&a.fen(), rng.gen_range(1..=4).min(pick_depth(rng, a.men()).max(1)), w(rng), rng.gen()));
            if rng.gen_bool(0.5) {
                sc.tables = 8;
                sc.buckets = 1024;
            }
        }
        "jumps" => {
            for _ in 0..rng.gen_range(2..6) {
                let p = random_root(rng, corpus);
                sc.steps.push(Step::new(&p.fen(), pick_depth(rng, p.men()), w(rng), rng.gen()));
            }
        }
        "interrupted" => {
            let p = random_root(rng, corpus);
            let mut s = Step::new(&p.fen(), 6, w(rng), rng.gen());
            s.depth = if rng.gen_bool(0.5) { None } else { Some(6) };
            s.cancel_at = Some(match rng.gen_range(0..4) {
                0 => 0,
                1 => rng.gen_range(1..200),
                2 => rng.gen_range(200..20_000),
                _ => rng.gen_range(20_000..120_000),
            });
            sc.steps.push(s);
            // the artifact of the interrupted search seeds searches of the same and a related root
            sc.steps.push(Step::new(&p.fen(), pick_depth(rng, p.men()).min(3), w(rng), rng.gen()));
            let legal = p.legal_moves();
            let c = p.make(legal.choose(rng).unwrap());
            if !c.legal_moves().is_empty() {
                sc.steps.push(Step::new(&c.fen(), pick_depth(rng, c.men()).min(3), w(rng), rng.gen()));
            }
        }
        "schedule" => {
            let p = random_root(rng, corpus);
            let mut s = Step::new(&p.fen(), pick_depth(rng, p.men()).max(2), *[2usize, 3, 4, 8, 16, 32].choose(rng).unwrap(), rng.gen());
            perturb(rng, &mut s);
            sc.steps.push(s);
            if rng.gen_bool(0.5) {
                let mut s2 = sc.steps[0].clone();
                s2.seed = rng.gen();
                perturb(rng, &mut s2);
                sc.steps.push(s2);
            }
        }
        // "chain" is generated step by step (each root depends on the previous answer)
        _ => {
            let p = random_root(rng, corpus);
            sc.steps.push(Step::new(&p.fen(), pick_depth(rng, p.men()), w(rng), rng.gen()));
        }
    }
    sc
}

/// judge one finished search; returns false on a violation
pub fn judge(kind: &str, sc: &Scenario, i: usize, step: &Step, res: &StepResult, rep: &mut Report) -> bool {
    let root = Pos::from_fen(&step.fen).unwrap();
    let replay = || {
        let mut s = sc.clone();
        s.steps.truncate(i + 1);
        json!({"scenario": s.to_json(), "kind": kind})
    };
    // history signature: the roots and depths of all searches so far on this memory
    let hist: Vec<String> = sc.steps[..=i].iter().map(|s| format!("{}@d{}", s.fen, s.depth.map(|d| d.to_string()).unwrap_or("-".into()))).collect();
    let sig_tail = hist.join(">");
    rep.eval(1);
    rep.count("searches", 1);
    rep.count(&format!("searches_{}", kind), 1);
    rep.count(&format!("workers_{}", step.workers.unwrap_or(0)), 1);
    rep.count("nodes", res.nodes);
    rep.count("table_accesses", res.finds + res.inserts);
    rep.count("delays_injected", res.delays);
    if let Some(e) = &res.out.panic {
        rep.violation("search-panic", &format!("search-panic|{}", sig_tail), &format!("search of {} panicked: {}", step.fen, e), replay());
        return false;
    }
    if root.legal_moves().is_empty() {
        // the property speaks about positions with a legal move; terminal roots are C04's business
        rep.count("terminal_roots_skipped", 1);
        return true;
    }
    if res.out.lines.is_empty() {
        rep.violation("no-report", &format!("no-report|{}", sig_tail), &format!("search of {} (depth {:?}, {} legal moves) ended without reporting a line", step.fen, step.depth, root.legal_moves().len()), replay());
        return false;
    }
    for (line, _) in res.out.lines.iter() {
        rep.count("lines", 1);
        if let Err(e) = srch::check_line(&root, line) {
            rep.violation("illegal-line", &format!("illegal-line|{}", sig_tail), &format!("{} [line {}] after history {:?}, table {}x{}, {:?} workers", e, srch::lan_line(line), &hist[..i], sc.tables, sc.buckets, step.workers), replay());
            return false;
        }
        rep.max("longest_line", line.len() as u64);
    }
    if i > 0 {
        rep.count("searches_on_reused_memory", 1);
    }
    if res.threads >= 2 {
        rep.count("searches_with_two_or_more_threads_at_the_table", 1);
        rep.distinct(mix(res.signature, 3));
        rep.aux_distinct("table_event_signatures", res.signature);
    }
    if res.cancel_seen {
        rep.count("searches_interrupted", 1);
    }
    if res.entries.1 > 0 && res.entries.0 * 2 > res.entries.1 {
        rep.count("searches_ending_with_table_over_half_full", 1);
    }
    rep.distinct(mix(root.key_hash(), (step.depth.unwrap_or(0) as u64) << 8 | step.workers.unwrap_or(0) as u64 | (i as u64) << 16));
    true
}

pub fn run_scenario(kind: &str, sc: &Scenario, ev: &Evaluator, rep: &mut Report) -> bool {
    let mut ok = true;
    sc.run(ev, |i, step, res| {
        ok = judge(kind, sc, i, step, res, rep);
        ok
    });
    ok
}

/// game-like chain: search, play the reported move, search again on the same memory
/// `contention`: one shard of 2-8 buckets (saturated at once), small endings, alternately a search with 4-8 workers
/// whose table accesses are delayed with high probability (stores of the root and its successors linger while
/// other workers refresh or displace them) and a one-worker search of the position two plies later.
fn chain(rng: &mut gen::R, corpus: &[Pos], ev: &Evaluator, rep: &mut Report, contention: bool) {
    let (tables, buckets) = if contention { (1, [2usize, 4, 4, 8][rng.gen_range(0..4)]) } else { random_geometry(rng) };
    let mut sc = Scenario { tables, buckets, hasher_seed: rng.gen(), steps: vec![] };
    let mut p = if contention {
        loop {
            let q = gen::sample(rng);
            if q.men() <= 6 && !q.legal_moves().is_empty() && q.imbalance() < 60.0 {
                break q;
            }
        }
    } else {
        random_root(rng, corpus)
    };
    if contention {
        // a filler search saturates the memory first
        let f = random_root(rng, corpus);
        sc.steps.push(Step::new(&f.fen(), 2, 1, rng.gen()));
        rep.count("contention_chains", 1);
    }
    let n = rng.gen_range(3..10);
    // the scenario is re-run from the start for each added step (keeps replay exact and simple)
    for _ in 0..n {
        if contention {
            let many = sc.steps.len() % 2 == 1;
            let mut st = Step::new(&p.fen(), if many { 3 } else { rng.gen_range(1..=2) }, if many { rng.gen_range(4..=8) } else { 1 }, rng.gen());
            if many {
                st.delay = Some((rng.gen(), [8192u64, 30000, 50000][rng.gen_range(0..3)]));
            }
            sc.steps.push(st);
        } else {
            sc.steps.push(Step::new(&p.fen(), pick_depth(rng, p.men()).min(3), *WORKERS.choose(rng).unwrap(), rng.gen()));
        }
        let mut last_line = None;
        let mut ok = true;
        let k = sc.steps.len() - 1;
        sc.run(ev, |i, step, res| {
            if i == k {
                ok = judge("chain", &sc, i, step, res, rep);
                last_line = res.out.lines.last().map(|l| l.0.clone());
            }
            ok
        });
        if !ok {
            return;
        }
        let Some(line) = last_line else { return };
        let om = crate::conv::to_omove(&line[0]);
        p = p.make(&om);
        // the opponent answers randomly
        let legal = p.legal_moves();
        if legal.is_empty() {
            return;
        }
        p = p.make(legal.choose(rng).unwrap());
        if p.legal_moves().is_empty() {
            return;
        }
    }
}

/// An interrupted search of A, then a search of B = A without the man that A's reported first move
/// moved (or captured) on the same memory: anything carried over from A's root is illegal in B.
fn stale_root_move(rng: &mut gen::R, corpus: &[Pos], ev: &Evaluator, rep: &mut Report) {
    let a = random_root(rng, corpus);
    let (tables, buckets) = if rng.gen_bool(0.5) { (8, 1024) } else { random_geometry(rng) };
    let mut sc = Scenario { tables, buckets, hasher_seed: rng.gen(), steps: vec![] };
    let mut s = Step::new(&a.fen(), 6, *WORKERS.choose(rng).unwrap(), rng.gen());
    if rng.gen_bool(0.7) {
        s.depth = None;
        s.cancel_at = Some(rng.gen_range(50..6000));
    } else {
        s.depth = Some(pick_depth(rng, a.men()).min(3));
    }
    sc.steps.push(s);
    let mut first: Option<OMove> = None;
    let mut ok = true;
    sc.run(ev, |i, step, res| {
        ok = judge("related", &sc, i, step, res, rep);
        first = res.out.lines.last().and_then(|l| l.0.first().map(crate::conv::to_omove));
        ok
    });
    let Some(m) = first else { return };
    if !ok {
        return;
    }
    // B: remove the mover (or, if that is the king, the captured man); other small edits now and then
    let mut b = a.clone();
    b.ep = None;
    let victim = if a.b[m.from as usize].abs() != 6 { Some(m.from) } else if m.capture.is_some() && !m.ep { Some(m.to) } else { None };
    let Some(v) = victim else { return };
    b.b[v as usize] = 0;
    for (bit, ksq, rsq, k, r) in [(WK, 4usize, 7usize, 6i8, 4i8), (WQ, 4, 0, 6, 4), (BK, 60, 63, -6, -4), (BQ, 60, 56, -6, -4)] {
        if b.castle & bit != 0 && (b.b[ksq] != k || b.b[rsq] != r) {
            b.castle &= !bit;
        }
    }
    if !b.is_legal_position() || b.legal_moves().is_empty() || gen::q_cost(&b, 300_000) >= 300_000 {
        return;
    }
    sc.steps.push(Step::new(&b.fen(), rng.gen_range(1..=3), *WORKERS.choose(rng).unwrap(), rng.gen()));
    let last = sc.steps.len() - 1;
    sc.run(ev, |i, step, res| {
        if i == last {
            judge("related", &sc, i, step, res, rep)
        } else {
            res.out.panic.is_none()
        }
    });
}

/// a few searches through the public entry point with the full-size table
fn public_entry(rng: &mut gen::R, corpus: &[Pos], rep: &mut Report) {
    use weechess_engine::searcher::{Searcher, StatusEvent};
    let p = random_root(rng, corpus);
    let st = crate::conv::to_state(&p);
    let depth = rng.gen_range(1..=3);
    let seed: u64 = rng.gen();
    let (h, _tx, rx) = Searcher::new().analyze(st, seed, Evaluator::default(), Some(depth), None);
    let mut lines = vec![];
    while let Ok(e) = rx.recv() {
        if let StatusEvent::BestMove { line, .. } = e {
            lines.push(line);
        }
    }
    let joined = h.join();
    rep.eval(1);
    rep.count("public_entry_searches", 1);
    let replay = json!({"public": {"fen": p.fen(), "depth": depth, "seed": seed}});
    if joined.is_err() {
        rep.violation("search-panic", &format!("search-panic|public|{}", p.fen()), "public search thread panicked", replay);
        return;
    }
    if lines.is_empty() {
        rep.violation("no-report", &format!("no-report|public|{}", p.fen()), "no line reported", replay);
        return;
    }
    for l in lines.iter() {
        if let Err(e) = srch::check_line(&p, l) {
            rep.violation("illegal-line", &format!("illegal-line|public|{}", p.fen()), &e, replay);
            return;
        }
    }
}

pub fn run(ctx: &Ctx, rep: &mut Report) {
    let ev = Evaluator::default();
    let mut rng = gen::shard_rng(ctx.seed, ctx.shard, 3);
    let corpus = gen::corpus();
    if let Some(path) = &ctx.replay {
        let v: serde_json::Value = serde_json::from_slice(&std::fs::read(path).expect("replay file")).expect("replay json");
        if v.get("scenario").is_some() {
            let sc = Scenario::from_json(&v["scenario"]);
            // schedules are not reproducible exactly: repeat the history a few times
            for _ in 0..10 {
                if !run_scenario(v["kind"].as_str().unwrap_or("replay"), &sc, &ev, rep) {
                    break;
                }
            }
        }
        return;
    }
    let mut n = ctx.n(18_000, 1_000_000);
    let mut kinds = vec!["single", "related", "rights", "rights", "ep", "ep", "jumps", "interrupted", "schedule", "schedule", "chain", "related", "backward", "backward", "contention", "contention", "contention"];
    if let Ok(only) = std::env::var("VERIF_C03_KIND") {
        // experiments: one kind only
        kinds.retain(|k| *k == only);
    }
    let mut k = 0usize;
    while n > 0 && ctx.time_left() {
        let kind = kinds[k % kinds.len()];
        k += 1;
        if kind == "chain" || kind == "contention" {
            chain(&mut rng, &corpus, &ev, rep, kind == "contention");
            n = n.saturating_sub(5);
            continue;
        }
        if kind == "related" {
            stale_root_move(&mut rng, &corpus, &ev, rep);
            n = n.saturating_sub(3);
            continue;
        }
        let sc = make_scenario(&mut rng, &corpus, kind);
        n = n.saturating_sub(sc.steps.len() as u64);
        run_scenario(kind, &sc, &ev, rep);
        if rep.samples.len() < 3 && sc.steps.len() >= 2 {
            rep.sample(json!({"kind": kind, "scenario": sc.to_json()}));
        }
    }
    if ctx.mode != "tsan" && ctx.mode != "miri" && ctx.shard < (if ctx.thorough() { 8 } else { 1 }) {
        public_entry(&mut rng, &corpus, rep);
    }
}
