//! C17 — positions recorded in the search memory's history are draws for the search: with a
//! forced mate whose obvious first move re-enters a recorded position and another mating first
//! move available, the search still reports a mate score and does not play the repeating move.

use crate::conv::*;
use crate::gen;
use crate::mon::c06::random_three_man;
use crate::oracle::rules::*;
use crate::oracle::solver::{pkey, PKey, Solver};
use crate::report::{mix, Ctx, Report};
use crate::scenario::{Scenario, Step};
use crate::srch;
use rand::{seq::SliceRandom, Rng};
use serde_json::json;
use std::collections::HashSet;
use weechess_engine::eval::{Evaluation, Evaluator};

pub struct Case {
    pub root: Pos,
    pub recorded: Pos,
    pub m1: OMove,
    /// shortest forced mate (plies) that never enters the recorded position or the root
    pub n2: usize,
}

/// find (root, recorded successor) pairs satisfying the property's precondition, by the solver
pub fn find_case(rng: &mut gen::R, kinds: &[Kind], ev: &Evaluator, rep: &mut Report) -> Option<Case> {
    let p = random_three_man(rng, kinds);
    let root_key = pkey(&p);
    let mut f0: HashSet<PKey> = HashSet::new();
    f0.insert(root_key);
    // mating first moves when only the root itself is in the history
    let wins0 = {
        let mut sv = Solver::new(&f0);
        sv.winning_moves(&p, 5)
    };
    if wins0.len() < 2 {
        return None;
    }
    // prefer the move the engine itself plays when nothing is recorded: the "obvious" move
    let mut m1 = *wins0.choose(rng).unwrap();
    if rng.gen_bool(0.8) {
        let sc = Scenario { tables: 8, buckets: 1024, hasher_seed: rng.gen(), steps: vec![Step::new(&p.fen(), 5, 1, rng.gen())] };
        sc.run(ev, |_, _, res| {
            if let Some((line, e)) = res.out.lines.last() {
                let om = to_omove(&line[0]);
                if *e >= Evaluation::POS_INF {
                    if let Some(w) = wins0.iter().find(|w| w.from == om.from && w.to == om.to && w.promo == om.promo) {
                        m1 = *w;
                        rep.count("cases_recording_the_engines_own_choice", 1);
                    }
                }
            }
            true
        });
    }
    let recorded = p.make(&m1);
    let mut f = f0.clone();
    f.insert(pkey(&recorded));
    let mut sv = Solver::new(&f);
    let n2 = sv.mate_distance(&p, 5)?;
    if sv.aborted {
        return None;
    }
    Some(Case { root: p, recorded, m1, n2 })
}

/// `natural`: the recorded position enters the history the way it does in a game, by having been
/// a search root on the same memory (so the table also knows it); otherwise through the hook.
pub fn scenario_for(rng: &mut gen::R, c: &Case, depth: usize, workers: usize, natural: bool) -> Scenario {
    let mut s = Step::new(&c.root.fen(), depth, workers, rng.gen());
    if workers >= 2 && rng.gen_bool(0.3) {
        s.delay = Some((rng.gen(), 2048));
    }
    let mut steps = vec![];
    if natural {
        steps.push(Step::new(&c.recorded.fen(), rng.gen_range(2..=5), *[1usize, 1, 2, 4].choose(rng).unwrap(), rng.gen()));
    } else {
        s.record = vec![c.recorded.fen()];
    }
    steps.push(s);
    Scenario { tables: 8, buckets: 1024, hasher_seed: rng.gen(), steps }
}

pub fn run_and_judge(sc: &Scenario, ev: &Evaluator, n2: Option<usize>, rep: &mut Report) -> bool {
    let last = sc.steps.len() - 1;
    let natural = last > 0;
    let root = Pos::from_fen(&sc.steps[last].fen).unwrap();
    let rec_fen = if natural { sc.steps[0].fen.clone() } else { sc.steps[last].record[0].clone() };
    let recorded = Pos::from_fen(&rec_fen).unwrap();
    let mut ok = true;
    sc.run(ev, |i, step, res| {
        if i < last {
            // the earlier search of the recorded position only prepares the memory
            return res.out.panic.is_none();
        }
        rep.count(if natural { "searches_recorded_by_an_earlier_search" } else { "searches_recorded_through_the_hook" }, 1);
        let replay = json!({"scenario": sc.to_json()});
        let sig = |k: &str| format!("{}|{}|rec={}|{}|d{}|w{}", k, step.fen, rec_fen, if natural { "searched-before" } else { "hook" }, step.depth.unwrap_or(0), step.workers.unwrap_or(0));
        rep.eval(1);
        rep.count("searches", 1);
        rep.count(&format!("workers_{}", step.workers.unwrap_or(0)), 1);
        if res.out.panic.is_some() {
            rep.count("panic_left_to_C04", 1);
            return false;
        }
        let Some((line, e)) = res.out.lines.last() else {
            rep.count("no_report_left_to_C03", 1);
            return false;
        };
        if *e < Evaluation::POS_INF {
            rep.violation("mate-lost-to-history", &sig("mate-lost-to-history"), &format!("{} has a forced mate in {:?} plies that avoids the recorded position {}, but the depth-{} search reports {:?} (line {})", step.fen, n2, rec_fen, step.depth.unwrap_or(0), e, srch::lan_line(line)), replay);
            ok = false;
            return false;
        }
        let om = to_omove(&line[0]);
        if !root.legal_moves().contains(&om) {
            rep.count("illegal_first_move_left_to_C03", 1);
            return false;
        }
        let c = root.make(&om);
        if c.b == recorded.b && c.wtm == recorded.wtm {
            rep.violation("repeating-move-chosen", &sig("repeating-move-chosen"), &format!("first move {} re-enters the recorded position {} ({}) although a mate score {:?} is reported", Pos::lan(&om), rec_fen, if natural { "a root of an earlier search on this memory" } else { "recorded through the hook" }, e), replay);
            ok = false;
            return false;
        }
        rep.distinct(mix(root.key_hash(), mix(recorded.key_hash(), step.depth.unwrap_or(0) as u64)));
        true
    });
    ok
}

/// control: without the record, the same searches must (and do) find mates too; with the
/// record applied to a position that is NOT re-entered nothing changes. Counted only.
fn control(rng: &mut gen::R, c: &Case, ev: &Evaluator, rep: &mut Report) {
    let mut s = Step::new(&c.root.fen(), c.n2 + 2, 1, rng.gen());
    s.record = vec![];
    let sc = Scenario { tables: 8, buckets: 1024, hasher_seed: rng.gen(), steps: vec![s] };
    sc.run(ev, |_, _, res| {
        if let Some((line, e)) = res.out.lines.last() {
            if *e >= Evaluation::POS_INF {
                let om = to_omove(&line[0]);
                if om.from == c.m1.from && om.to == c.m1.to {
                    // the record really changes the answer for this case
                    rep.count("cases_where_unrecorded_search_plays_the_recorded_move", 1);
                }
            }
        }
        true
    });
}

pub fn run(ctx: &Ctx, rep: &mut Report) {
    let ev = Evaluator::default();
    let mut rng = gen::shard_rng(ctx.seed, ctx.shard, 17);
    if let Some(path) = &ctx.replay {
        let v: serde_json::Value = serde_json::from_slice(&std::fs::read(path).expect("replay file")).expect("replay json");
        let sc = Scenario::from_json(&v["scenario"]);
        for _ in 0..10 {
            if !run_and_judge(&sc, &ev, None, rep) {
                break;
            }
        }
        return;
    }
    let kinds = [Kind::R, Kind::Q, Kind::R, Kind::Q, Kind::P];
    let workers = [1usize, 1, 4, 16, 2, 32];
    let mut n = ctx.n(8_000, 400_000);
    let mut tries = 0u64;
    while n > 0 && ctx.time_left() {
        tries += 1;
        let Some(c) = find_case(&mut rng, &kinds, &ev, rep) else { continue };
        rep.count("cases", 1);
        rep.count(&format!("cases_alternative_mate_in_{}_plies", c.n2), 1);
        if rng.gen_bool(0.25) {
            control(&mut rng, &c, &ev, rep);
        }
        for d in [c.n2, c.n2 + 1, c.n2 + 2] {
            let w = *workers.choose(&mut rng).unwrap();
            let natural = rng.gen_bool(0.5);
            let sc = scenario_for(&mut rng, &c, d, w, natural);
            run_and_judge(&sc, &ev, Some(c.n2), rep);
            n = n.saturating_sub(1);
        }
        if rep.samples.len() < 4 {
            rep.sample(json!({"root": c.root.fen(), "recorded_successor_of": Pos::lan(&c.m1), "recorded": c.recorded.fen(), "alternative_mate_in_plies": c.n2}));
        }
    }
    rep.count("candidate_roots_tried", tries);
}
