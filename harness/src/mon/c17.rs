//! C17 — positions recorded in the search memory's history are draws for the search: with a
//! forced mate whose obvious first move re-enters a recorded position and another mating first
//! move available, the search still reports a mate score and does not play the repeating move.

use crate::conv::*;
use crate::gen;
use crate::mon::c06::random_three_man;
use crate::oracle::rules::*;
use crate::oracle::solver::{pkey, PKey, Solver};
use crate::report::{mix, Ctx, Report};
use crate::scenario::{Scenario, Step};
use crate::srch;
use rand::{seq::SliceRandom, Rng};
use serde_json::json;
use std::collections::HashSet;
use weechess_engine::eval::{Evaluation, Evaluator};

pub struct Case {
    pub root: Pos,
    /// the recorded position: the successor of m1, or (ply 2) the position after m1 and one reply
    pub recorded: Pos,
    pub m1: OMove,
    /// shortest forced mate (plies) that never enters the recorded position or the root
    pub n2: usize,
    /// first moves that cannot be mating under the rule: they enter the recorded position or allow the
    /// defender to enter it at once
    pub spoiled: Vec<OMove>,
}

fn spoiled_moves(p: &Pos, f: &HashSet<PKey>) -> Vec<OMove> {
    p.legal_moves()
        .into_iter()
        .filter(|m| {
            let c = p.make(m);
            f.contains(&pkey(&c)) || c.legal_moves().iter().any(|r| f.contains(&pkey(&c.make(r))))
        })
        .collect()
}

/// roots with a little more material: K+Q v K+R and K+R v K+R (the root may be in check)
fn random_four_man(rng: &mut gen::R) -> Pos {
    loop {
        let mut b = [0i8; 64];
        let kinds: (i8, i8) = *[(5i8, 4i8), (4, 4), (5, 3), (5, 2)].choose(rng).unwrap();
        let mut sqs = vec![];
        while sqs.len() < 4 {
            let s = rng.gen_range(0..64usize);
            if !sqs.contains(&s) {
                sqs.push(s);
            }
        }
        b[sqs[0]] = 6;
        b[sqs[1]] = -6;
        b[sqs[2]] = kinds.0;
        b[sqs[3]] = -kinds.1;
        let p = Pos { b, wtm: true, castle: 0, ep: None, half: 0, full: 1 };
        if p.is_legal_position() && !p.legal_moves().is_empty() {
            return if rng.gen_bool(0.5) { p.mirror() } else { p };
        }
    }
}

/// roots in which a pawn on the seventh rank can promote by capturing a piece on the eighth (the recorded position
/// is then entered by a move that captures and promotes at once)
fn capture_promotion_root(rng: &mut gen::R) -> Pos {
    loop {
        let mut b = [0i8; 64];
        let f = rng.gen_range(0..8usize);
        let g = if f == 0 { 1 } else if f == 7 { 6 } else if rng.gen_bool(0.5) { f - 1 } else { f + 1 };
        b[48 + f] = 1;
        b[56 + g] = -[2i8, 3, 4, 2][rng.gen_range(0..4)];
        let (wk, bk) = (rng.gen_range(0..64usize), rng.gen_range(0..64usize));
        if b[wk] != 0 || b[bk] != 0 || wk == bk {
            continue;
        }
        b[wk] = 6;
        b[bk] = -6;
        let p = Pos { b, wtm: true, castle: 0, ep: None, half: 0, full: 1 };
        if p.is_legal_position() && p.legal_moves().iter().any(|m| m.promo.is_some() && m.capture.is_some()) {
            return if rng.gen_bool(0.5) { p.mirror() } else { p };
        }
    }
}

/// find (root, recorded successor) pairs satisfying the property's precondition, by the solver
pub fn find_case(rng: &mut gen::R, kinds: &[Kind], ev: &Evaluator, rep: &mut Report) -> Option<Case> {
    let promo_family = rng.gen_bool(0.2);
    let p = if promo_family { capture_promotion_root(rng) } else if rng.gen_bool(0.25) { random_four_man(rng) } else { random_three_man(rng, kinds) };
    let root_key = pkey(&p);
    let mut f0: HashSet<PKey> = HashSet::new();
    f0.insert(root_key);
    // mating first moves when only the root itself is in the history
    let wins0 = {
        let mut sv = Solver::new(&f0);
        sv.winning_moves(&p, 5)
    };
    if wins0.len() < 2 {
        return None;
    }
    // prefer the move the engine itself plays when nothing is recorded: the "obvious" move
    let mut m1 = *wins0.choose(rng).unwrap();
    let cp: Vec<&OMove> = wins0.iter().filter(|m| m.promo.is_some() && m.capture.is_some()).collect();
    if promo_family && !cp.is_empty() {
        m1 = **cp.choose(rng).unwrap();
        rep.count("cases_recorded_after_a_capturing_promotion", 1);
    } else if rng.gen_bool(0.8) {
        let sc = Scenario { tables: 8, buckets: 1024, hasher_seed: rng.gen(), steps: vec![Step::new(&p.fen(), 5, 1, rng.gen())] };
        sc.run(ev, |_, _, res| {
            if let Some((line, e)) = res.out.lines.last() {
                let om = to_omove(&line[0]);
                if *e >= Evaluation::POS_INF {
                    if let Some(w) = wins0.iter().find(|w| w.from == om.from && w.to == om.to && w.promo == om.promo) {
                        m1 = *w;
                        rep.count("cases_recording_the_engines_own_choice", 1);
                    }
                }
            }
            true
        });
    }
    // record the successor of m1, or the position two plies down that line (after a defender's reply)
    let after = p.make(&m1);
    let replies = after.legal_moves();
    let recorded = if !replies.is_empty() && rng.gen_bool(0.3) { after.make(replies.choose(rng).unwrap()) } else { after };
    if pkey(&recorded) == root_key {
        return None;
    }
    let mut f = f0.clone();
    f.insert(pkey(&recorded));
    let mut sv = Solver::new(&f);
    sv.node_limit = 2_000_000;
    let n2 = sv.mate_distance(&p, 5)?;
    if sv.aborted {
        return None;
    }
    let spoiled = spoiled_moves(&p, &f);
    if recorded.wtm == p.wtm {
        rep.count("cases_recorded_two_plies_down", 1);
    }
    if p.in_check(p.wtm) {
        rep.count("cases_with_root_in_check", 1);
    }
    // move counters as a real game would have them: the recorded position occurred first (sometimes right after an
    // irreversible move: clock 0), the root one or two plies later, so that the recorded position recurs inside the
    // search with a clock equal to the distance between its two occurrences
    let (mut p, mut recorded) = (p, recorded);
    if rng.gen_bool(0.6) {
        let h0 = [0u64, 0, 0, 1, 3, 10][rng.gen_range(0..6)];
        let n = rng.gen_range(2..80u64);
        recorded.half = h0;
        recorded.full = n;
        if recorded.wtm == p.wtm {
            p.half = h0 + 2;
            p.full = n + 1;
        } else {
            p.half = h0 + 1;
            p.full = if recorded.wtm { n } else { n + 1 };
        }
        rep.count("cases_with_game_consistent_counters", 1);
        if h0 == 0 {
            rep.count("cases_recorded_right_after_an_irreversible_move", 1);
        }
    }
    Some(Case { root: p, recorded, m1, n2, spoiled })
}

/// `natural`: the recorded position enters the history the way it does in a game, by having been
/// a search root on the same memory (so the table also knows it); otherwise through the hook.
pub fn scenario_for(rng: &mut gen::R, c: &Case, depth: usize, workers: usize, natural: bool) -> Scenario {
    let mut s = Step::new(&c.root.fen(), depth, workers, rng.gen());
    if workers >= 2 && rng.gen_bool(0.3) {
        s.delay = Some((rng.gen(), 2048));
    }
    let mut steps = vec![];
    if natural {
        steps.push(Step::new(&c.recorded.fen(), rng.gen_range(2..=5), *[1usize, 1, 2, 4].choose(rng).unwrap(), rng.gen()));
    } else {
        s.record = vec![c.recorded.fen()];
        if rng.gen_bool(0.3) {
            // a long game: hundreds of other positions recorded after it
            let n = rng.gen_range(100..700);
            let mut q = Pos::start();
            for _ in 0..n {
                let legal = q.legal_moves();
                if legal.is_empty() || q.men() < 6 {
                    q = Pos::start();
                    continue;
                }
                q = q.make(legal.choose(rng).unwrap());
                s.record.push(q.fen());
            }
        }
    }
    steps.push(s);
    Scenario { tables: 8, buckets: 1024, hasher_seed: rng.gen(), steps }
}

pub fn run_and_judge(sc: &Scenario, ev: &Evaluator, n2: Option<usize>, spoiled: &[OMove], rep: &mut Report) -> bool {
    let last = sc.steps.len() - 1;
    let natural = last > 0;
    let root = Pos::from_fen(&sc.steps[last].fen).unwrap();
    let rec_fen = if natural { sc.steps[0].fen.clone() } else { sc.steps[last].record[0].clone() };
    let recorded = Pos::from_fen(&rec_fen).unwrap();
    let mut ok = true;
    sc.run(ev, |i, step, res| {
        if i < last {
            // the earlier search of the recorded position only prepares the memory
            return res.out.panic.is_none();
        }
        rep.count(if natural { "searches_recorded_by_an_earlier_search" } else { "searches_recorded_through_the_hook" }, 1);
        let replay = json!({"scenario": sc.to_json()});
        let sig = |k: &str| format!("{}|{}|rec={}|{}|d{}|w{}", k, step.fen, rec_fen, if natural { "searched-before" } else { "hook" }, step.depth.unwrap_or(0), step.workers.unwrap_or(0));
        rep.eval(1);
        rep.count("searches", 1);
        rep.count(&format!("workers_{}", step.workers.unwrap_or(0)), 1);
        if res.out.panic.is_some() {
            rep.count("panic_left_to_C04", 1);
            return false;
        }
        let Some((line, e)) = res.out.lines.last() else {
            rep.count("no_report_left_to_C03", 1);
            return false;
        };
        if *e < Evaluation::POS_INF {
            rep.violation("mate-lost-to-history", &sig("mate-lost-to-history"), &format!("{} has a forced mate in {:?} plies that avoids the recorded position {}, but the depth-{} search reports {:?} (line {})", step.fen, n2, rec_fen, step.depth.unwrap_or(0), e, srch::lan_line(line)), replay);
            ok = false;
            return false;
        }
        let om = to_omove(&line[0]);
        if !root.legal_moves().contains(&om) {
            rep.count("illegal_first_move_left_to_C03", 1);
            return false;
        }
        let c = root.make(&om);
        if sc.steps[last].record.len() > 50 {
            rep.count("searches_with_long_histories", 1);
        }
        if spoiled.iter().any(|m| m.from == om.from && m.to == om.to && m.promo == om.promo) && !(c.b == recorded.b && c.wtm == recorded.wtm) {
            rep.violation("repeating-move-chosen", &sig("repeating-move-chosen"), &format!("first move {} lets the defender re-enter the recorded position {} at once, yet a mate score {:?} is reported", Pos::lan(&om), rec_fen, e), replay);
            ok = false;
            return false;
        }
        if c.b == recorded.b && c.wtm == recorded.wtm {
            rep.violation("repeating-move-chosen", &sig("repeating-move-chosen"), &format!("first move {} re-enters the recorded position {} ({}) although a mate score {:?} is reported", Pos::lan(&om), rec_fen, if natural { "a root of an earlier search on this memory" } else { "recorded through the hook" }, e), replay);
            ok = false;
            return false;
        }
        rep.distinct(mix(root.key_hash(), mix(recorded.key_hash(), step.depth.unwrap_or(0) as u64)));
        true
    });
    ok
}

/// control: without the record, the same searches must (and do) find mates too; with the
/// record applied to a position that is NOT re-entered nothing changes. Counted only.
fn control(rng: &mut gen::R, c: &Case, ev: &Evaluator, rep: &mut Report) {
    let mut s = Step::new(&c.root.fen(), c.n2 + 2, 1, rng.gen());
    s.record = vec![];
    let sc = Scenario { tables: 8, buckets: 1024, hasher_seed: rng.gen(), steps: vec![s] };
    sc.run(ev, |_, _, res| {
        if let Some((line, e)) = res.out.lines.last() {
            if *e >= Evaluation::POS_INF {
                let om = to_omove(&line[0]);
                if om.from == c.m1.from && om.to == c.m1.to {
                    // the record really changes the answer for this case
                    rep.count("cases_where_unrecorded_search_plays_the_recorded_move", 1);
                }
            }
        }
        true
    });
}

pub fn run(ctx: &Ctx, rep: &mut Report) {
    let ev = Evaluator::default();
    let mut rng = gen::shard_rng(ctx.seed, ctx.shard, 17);
    if let Some(path) = &ctx.replay {
        let v: serde_json::Value = serde_json::from_slice(&std::fs::read(path).expect("replay file")).expect("replay json");
        let sc = Scenario::from_json(&v["scenario"]);
        for _ in 0..10 {
            let root = Pos::from_fen(&sc.steps[sc.steps.len() - 1].fen).unwrap();
            let last = sc.steps.len() - 1;
            let rec = Pos::from_fen(if last > 0 { &sc.steps[0].fen } else { &sc.steps[last].record[0] }).unwrap();
            let mut f: HashSet<PKey> = HashSet::new();
            f.insert(pkey(&root));
            f.insert(pkey(&rec));
            let sp = spoiled_moves(&root, &f);
            if !run_and_judge(&sc, &ev, None, &sp, rep) {
                break;
            }
        }
        return;
    }
    let kinds = [Kind::R, Kind::Q, Kind::R, Kind::Q, Kind::P];
    let workers = [1usize, 1, 4, 16, 2, 32];
    let mut n = ctx.n(8_000, 400_000);
    let mut tries = 0u64;
    while n > 0 && ctx.time_left() {
        tries += 1;
        let Some(c) = find_case(&mut rng, &kinds, &ev, rep) else { continue };
        rep.count("cases", 1);
        rep.count(&format!("cases_alternative_mate_in_{}_plies", c.n2), 1);
        if rng.gen_bool(0.25) {
            control(&mut rng, &c, &ev, rep);
        }
        for d in [c.n2, c.n2 + 1, c.n2 + 2] {
            let w = *workers.choose(&mut rng).unwrap();
            // a position two plies down cannot have been a root of this game's searches by the same side... it can
            // (the opponent's reply was played): both flavours apply
            let natural = rng.gen_bool(0.5);
            let sc = scenario_for(&mut rng, &c, d, w, natural);
            run_and_judge(&sc, &ev, Some(c.n2), &c.spoiled, rep);
            n = n.saturating_sub(1);
        }
        if rep.samples.len() < 4 {
            rep.sample(json!({"root": c.root.fen(), "recorded_successor_of": Pos::lan(&c.m1), "recorded": c.recorded.fen(), "alternative_mate_in_plies": c.n2}));
        }
    }
    rep.count("candidate_roots_tried", tries);
}
