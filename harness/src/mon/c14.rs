//! C14 — malformed text never crashes the parsers (library level, checked and plain builds) or
//! the UCI loop (process level, shipped and overflow-checked binaries).

use crate::gen;
use crate::mon::c07::{judge, Cmd, Session};
use crate::oracle::rules::Pos;
use crate::report::{fnv, Ctx, Report};
use crate::util::guard;
use rand::{seq::SliceRandom, Rng};
use serde_json::{json, Value};
use std::sync::atomic::{AtomicU64, Ordering::*};
use std::sync::{Arc, Mutex};
use weechess_core::{
    notation::{try_from_notation, Fen, San},
    MoveQuery, State,
};

const PIECES: &[u8] = b"rnbqkpRNBQKP";
const ODD: &[&str] = &["\u{0661}", "\u{FF11}", "\u{00B2}", "é", "♞", "\u{200B}", "\u{00A0}", "\u{2003}", "|", "\t", "\r", "\u{0}", "½", "𝟏", "\u{1F600}", "-", "/", "8", "9", "0", "w", "b", "K", "Q", "k", "q", " "];

fn rand_rank(rng: &mut gen::R) -> String {
    let mut s = String::new();
    let mut f = 0;
    while f < 8 {
        if rng.gen_bool(0.4) {
            let n = rng.gen_range(1..=(8 - f));
            s.push_str(&n.to_string());
            f += n;
        } else {
            s.push(PIECES[rng.gen_range(0..PIECES.len())] as char);
            f += 1;
        }
    }
    s
}

pub fn grammar_fen(rng: &mut gen::R) -> String {
    let mut ranks: Vec<String> = (0..8).map(|_| rand_rank(rng)).collect();
    let mut side = if rng.gen_bool(0.5) { "w".to_string() } else { "b".to_string() };
    let mut castle = ["-", "KQkq", "K", "Qk", "kq", "KQ"].choose(rng).unwrap().to_string();
    let mut ep = if rng.gen_bool(0.7) { "-".to_string() } else { format!("{}{}", (b'a' + rng.gen_range(0..8)) as char, if rng.gen_bool(0.5) { 3 } else { 6 }) };
    let mut half = rng.gen_range(0..100).to_string();
    let mut full = rng.gen_range(1..200).to_string();
    let mut sep = " ".to_string();
    // mutations
    for _ in 0..rng.gen_range(0..4) {
        match rng.gen_range(0..16) {
            0 => {
                // digit flood in one rank
                let k = [2usize, 9, 31, 32, 33, 64, 400][rng.gen_range(0..7)];
                let d = (b'1' + rng.gen_range(0..8)) as char;
                let i = rng.gen_range(0..ranks.len().max(1));
                if let Some(r) = ranks.get_mut(i) {
                    *r = std::iter::repeat(d).take(k).collect();
                }
            }
            1 => {
                // over-long rank of pieces
                let k = rng.gen_range(9..80);
                let i = rng.gen_range(0..ranks.len().max(1));
                let v: String = (0..k).map(|_| PIECES[rng.gen_range(0..PIECES.len())] as char).collect();
                if let Some(r) = ranks.get_mut(i) {
                    *r = v;
                }
            }
            2 => {
                ranks.push(rand_rank(rng));
            }
            3 => {
                ranks.pop();
            }
            4 => half = ["18446744073709551615", "18446744073709551616", "99999999999999999999999999", "-1", "+5", "4294967296", "0x10", "1e3", ""][rng.gen_range(0..9)].to_string(),
            5 => full = ["18446744073709551615", "18446744073709551616", "340282366920938463463374607431768211456", "00000000000000000001", "-0", ""][rng.gen_range(0..6)].to_string(),
            6 => half = ODD.choose(rng).unwrap().repeat(rng.gen_range(1..4)),
            7 => side = ["|", "W", "wb", "", "bw", "x"][rng.gen_range(0..6)].to_string(),
            8 => castle = ["|", "K|Q", "KKKK", "kqKQ", "KQkqK", "--", "", "QQ", "k-"][rng.gen_range(0..9)].to_string(),
            9 => ep = ["a9", "i3", "e0", "e33", "3e", "", "--", "h8", "a1"][rng.gen_range(0..9)].to_string(),
            10 => sep = ["  ", "\t", "\u{00A0}", "\u{2003}", "", "\n", " \r"][rng.gen_range(0..7)].to_string(),
            11 => {
                let i = rng.gen_range(0..ranks.len().max(1));
                if let Some(r) = ranks.get_mut(i) {
                    let o = ODD.choose(rng).unwrap();
                    let at = rng.gen_range(0..=r.chars().count());
                    let b: usize = r.char_indices().nth(at).map(|x| x.0).unwrap_or(r.len());
                    r.insert_str(b, o);
                }
            }
            12 => {
                // everything in the last rank only, location index beyond 63
                let i = ranks.len().saturating_sub(1);
                if let Some(r) = ranks.get_mut(i) {
                    *r = format!("{}{}", "8".repeat(rng.gen_range(1..40)), "K");
                }
            }
            13 => {
                for r in ranks.iter_mut() {
                    *r = "8".into();
                }
            }
            14 => {
                let i = rng.gen_range(0..8.min(ranks.len()).max(1));
                if let Some(r) = ranks.get_mut(i) {
                    r.push_str(&"1".repeat(rng.gen_range(1..300)));
                }
            }
            _ => full.push_str(&"9".repeat(rng.gen_range(1..60))),
        }
    }
    let mut s = ranks.join("/");
    for f in [&side, &castle, &ep, &half, &full] {
        s.push_str(&sep);
        s.push_str(f);
    }
    if rng.gen_bool(0.05) {
        s.push_str(&sep);
        s.push_str("extra");
    }
    s
}

pub fn random_text(rng: &mut gen::R) -> String {
    let n = match rng.gen_range(0..10) {
        0 => 0,
        1..=6 => rng.gen_range(1..12),
        7..=8 => rng.gen_range(12..200),
        _ => rng.gen_range(200..70_000),
    };
    let mut s = String::new();
    for _ in 0..n {
        match rng.gen_range(0..10) {
            0..=4 => s.push(*b"abcdefgh12345678xKQRBNPO-=+# /wkqrnbp".choose(rng).unwrap() as char),
            5..=6 => s.push_str(ODD.choose(rng).unwrap()),
            7 => s.push(rng.gen_range(0x20u8..0x7f) as char),
            _ => {
                if let Some(c) = char::from_u32(rng.gen_range(0..0x11_0000)) {
                    s.push(c)
                }
            }
        }
        if s.len() > 65_000 {
            break;
        }
    }
    s
}

/// longest flood (characters); the unoptimised build reads strings a hundred times more slowly
pub static FLOOD_MAX: std::sync::atomic::AtomicUsize = std::sync::atomic::AtomicUsize::new(1_000_000);

pub fn mutated_san(rng: &mut gen::R) -> String {
    // floods: a plausible move followed (or preceded) by a very long run of annotation / check marks or of one
    // character (work or recursion proportional to the length of the input must not exhaust anything)
    if rng.gen_bool(0.04) {
        let stem = ["e4", "Nf3", "Qxf7", "O-O", "e8=Q", "Raxd1", "bxa8=N"].choose(rng).unwrap().to_string();
        let unit = ["+", "#", "!", "?", "+!", "#?!", "x", "=", "-O", "1", "a"].choose(rng).unwrap();
        let k = [50usize, 1_000, 6_000, 20_000, 60_000, 200_000, 1_000_000][rng.gen_range(0..7)].min(FLOOD_MAX.load(std::sync::atomic::Ordering::Relaxed)) / unit.len();
        return if rng.gen_bool(0.85) { format!("{}{}", stem, unit.repeat(k)) } else { format!("{}{}", unit.repeat(k), stem) };
    }
    let base = ["e4", "Nf3", "exd5", "O-O", "O-O-O", "e8=Q", "e8Q", "Raxd1+", "Qh4#", "N5xf3", "bxa8=N+", "Kd2", "R1a3", "Qa1b2", "dxe6"].choose(rng).unwrap().to_string();
    let mut chars: Vec<String> = base.chars().map(|c| c.to_string()).collect();
    for _ in 0..rng.gen_range(0..4) {
        match rng.gen_range(0..6) {
            0 => {
                let i = rng.gen_range(0..=chars.len());
                chars.insert(i, ODD.choose(rng).unwrap().to_string());
            }
            1 => {
                if !chars.is_empty() {
                    let i = rng.gen_range(0..chars.len());
                    chars.remove(i);
                }
            }
            2 => {
                let i = rng.gen_range(0..=chars.len());
                chars.insert(i, (*b"abcdefgh12345678xKQRBNPO-=+#9i0".choose(rng).unwrap() as char).to_string());
            }
            3 => {
                if !chars.is_empty() {
                    let i = rng.gen_range(0..chars.len());
                    let c = chars[i].clone();
                    chars.insert(i, c.repeat(rng.gen_range(1..50)));
                }
            }
            4 => chars.reverse(),
            _ => {
                if chars.len() >= 2 {
                    let i = rng.gen_range(0..chars.len() - 1);
                    chars.swap(i, i + 1);
                }
            }
        }
    }
    chars.concat()
}

/// library level: a worker thread parses, the monitor thread watches its progress counter
fn library(ctx: &Ctx, rep: &mut Report) {
    let mut rng = gen::shard_rng(ctx.seed, ctx.shard, 14);
    let total = ctx.n(400_000, 40_000_000);
    let current: Arc<Mutex<String>> = Arc::new(Mutex::new(String::new()));
    let done = Arc::new(AtomicU64::new(0));
    let budget = ctx.budget_s;
    let start = ctx.start;
    let (cur2, done2) = (current.clone(), done.clone());
    let profile = if cfg!(debug_assertions) { if ctx.mode == "library-debug" { "debug" } else { "checked" } } else { "plain" };
    if ctx.mode == "library-debug" {
        FLOOD_MAX.store(60_000, std::sync::atomic::Ordering::Relaxed);
    }
    let h = std::thread::spawn(move || {
        let mut r = Report::new();
        let mut i = 0u64;
        while i < total && start.elapsed().as_secs_f64() < budget {
            let (kind, text) = match i % 8 {
                0 | 1 | 2 => ("fen", grammar_fen(&mut rng)),
                3 => ("fen", random_text(&mut rng)),
                4 | 5 => ("san", mutated_san(&mut rng)),
                6 => ("san", random_text(&mut rng)),
                _ => {
                    // valid FEN with whitespace/field mutations only
                    let p = gen::sample(&mut rng);
                    let mut t = p.fen();
                    // field-count variants of an otherwise valid record: only the first k fields (EPD-like records
                    // without counters, records cut after any field), a field doubled, two fields swapped
                    match rng.gen_range(0..6) {
                        0 | 1 => {
                            let f: Vec<&str> = t.split(' ').collect();
                            let k = rng.gen_range(1..=5);
                            t = f[..k].join(" ");
                        }
                        2 => {
                            let mut f: Vec<&str> = t.split(' ').collect();
                            let i = rng.gen_range(0..f.len());
                            f.insert(i, f[i]);
                            t = f.join(" ");
                        }
                        3 => {
                            let mut f: Vec<&str> = t.split(' ').collect();
                            let (i, j) = (rng.gen_range(0..f.len()), rng.gen_range(0..f.len()));
                            f.swap(i, j);
                            t = f.join(" ");
                        }
                        _ => {}
                    }
                    if rng.gen_bool(0.5) {
                        t = t.replace(' ', ["  ", "\t", " \u{00A0}"][rng.gen_range(0..3)]);
                    }
                    ("fen", t)
                }
            };
            *cur2.lock().unwrap() = text.clone();
            let res = if kind == "fen" {
                guard(|| try_from_notation::<State, Fen>(&text).is_ok())
            } else {
                guard(|| try_from_notation::<MoveQuery, San>(&text).is_ok())
            };
            r.eval(1);
            match res {
                Ok(true) => {
                    r.count(&format!("{}_accepted", kind), 1);
                }
                Ok(false) => {
                    r.count(&format!("{}_rejected", kind), 1);
                }
                Err(e) => {
                    // signature = panic site, so that the same defect is one finding
                    let site = e.rsplit(" @ ").next().unwrap_or("").to_string();
                    let shown: String = text.chars().take(120).collect();
                    r.violation(&format!("{}-parse-panic", kind), &format!("{}-parse-panic|{}|{}", kind, profile, site), &format!("reading {:?} as {} panicked in the {} build: {}", shown, kind, profile, e), json!({"text": text, "kind": kind}));
                }
            }
            r.distinct(fnv(&text));
            if r.samples.len() < 4 && i % 1000 == 7 {
                r.sample(json!({"kind": kind, "text": text.chars().take(120).collect::<String>()}));
            }
            i += 1;
            done2.store(i, SeqCst);
        }
        r
    });
    // progress watchdog: a parse that does not return is a hang
    let mut last = 0u64;
    let mut last_change = std::time::Instant::now();
    loop {
        if h.is_finished() {
            break;
        }
        std::thread::sleep(std::time::Duration::from_millis(100));
        let d = done.load(SeqCst);
        if d != last {
            last = d;
            last_change = std::time::Instant::now();
        } else if last_change.elapsed().as_secs() > 30 {
            let text = current.lock().unwrap().clone();
            rep.violation("parse-hang", &format!("parse-hang|{}", fnv(&text)), &format!("a single parse has not returned for 30 s: {:?}", text.chars().take(200).collect::<String>()), json!({"text": text}));
            rep.write(ctx);
            std::process::exit(1);
        }
    }
    match h.join() {
        Ok(r) => {
            rep.evaluations += r.evaluations;
            for (k, v) in r.counters {
                rep.count(&format!("{}_{}", k, profile), v);
            }
            for d in r.distinct {
                rep.distinct(d);
            }
            rep.samples.extend(r.samples);
            rep.violation_count += r.violation_count;
            rep.violations.extend(r.violations);
            rep.count(&format!("library_strings_{}", profile), done.load(SeqCst));
        }
        Err(_) => {
            let last = crate::util::ALL_PANICS.lock().map(|v| v.last().cloned().unwrap_or_default()).unwrap_or_default();
            rep.inconclusive(&format!("the library fuzz worker itself panicked outside a guarded call: {}", last))
        }
    }
}

pub fn hostile_line(rng: &mut gen::R) -> (String, bool) {
    // returns (line, needs a `position startpos` afterwards)
    let tok = |rng: &mut gen::R| -> String {
        match rng.gen_range(0..14) {
            0 => "e2".into(),
            1 => "e".into(),
            2 => "".into(),
            3 => "e2e".into(),
            4 => "e2e4qq".into(),
            5 => "é2e4".into(),
            6 => "e2é4".into(),
            7 => "♞♞♞♞".into(),
            8 => "e2e4x".into(),
            9 => "a".repeat(10_000),
            10 => "e7e8k".into(),
            11 => "0000".into(),
            12 => "e2e4\u{0}".into(),
            _ => ODD.choose(rng).unwrap().repeat(rng.gen_range(1..5)),
        }
    };
    if rng.gen_bool(0.2) {
        // the standard go vocabulary with odd values; clock tokens usually come together
        let vals = ["0", "0", "1", "-1", "60000", "-60000", "2147483647", "-2147483648", "4294967296", "9223372036854775807", "99999999999999999999", "abc", "", "0.5", "e2e4"];
        let v = |rng: &mut gen::R| vals[rng.gen_range(0..vals.len())];
        let mut l = String::from("go");
        if rng.gen_bool(0.6) {
            l.push_str(&format!(" wtime {} btime {}", v(rng), v(rng)));
            if rng.gen_bool(0.5) {
                l.push_str(&format!(" winc {} binc {}", v(rng), v(rng)));
            }
            if rng.gen_bool(0.6) {
                l.push_str(&format!(" movestogo {}", v(rng)));
            }
        }
        let words = ["movestogo", "nodes", "mate", "depth", "movetime", "searchmoves", "ponder", "infinite", "wtime", "btime"];
        for _ in 0..rng.gen_range(0..3) {
            l.push(' ');
            l.push_str(words[rng.gen_range(0..words.len())]);
            if rng.gen_bool(0.85) {
                l.push(' ');
                l.push_str(v(rng));
            }
        }
        return (l, false);
    }
    match rng.gen_range(0..12) {
        0 => (random_text(rng).replace(['\n', '\r'], " ").chars().take(5000).collect(), false),
        1 => (format!("position startpos moves {}", tok(rng)), true),
        2 => (format!("position startpos moves e2e4 {} e7e5", tok(rng)), true),
        3 => {
            if rng.gen_bool(0.35) {
                // an otherwise valid record cut after its first k fields (EPD-like), sometimes followed by moves
                let t = gen::sample(rng).fen();
                let f: Vec<&str> = t.split(' ').collect();
                let k = rng.gen_range(1..=5);
                (format!("position fen {}{}", f[..k].join(" "), if rng.gen_bool(0.3) { " moves e2e4" } else { "" }), true)
            } else {
                (format!("position fen {}", grammar_fen(rng).replace(['\n', '\r'], " ")), true)
            }
        }
        4 => (format!("position fen {} moves {}", grammar_fen(rng).replace(['\n', '\r'], " "), tok(rng)), true),
        5 => (format!("go depth {}", ["-1", "0", "18446744073709551615", "99999999999999999999999", "x", "", "1.5", "١"][rng.gen_range(0..8)]), false),
        6 => (format!("go movetime {}", ["-5", "-1", "-2147483648", "2147483647", "99999999999999999999", "abc", "", "2147483648", "0"][rng.gen_range(0..9)]), false),
        7 => (["", " ", "\t", "position", "position fen", "position moves", "uci uci", ".status", "setoption name Hash value 99999999", "position startpos moves", "debug on", "ponderhit"][rng.gen_range(0..12)].to_string(), true),
        8 => {
            // well-formed FEN with extreme counters followed by legal moves
            let c = ["18446744073709551615", "18446744073709551614", "9223372036854775807", "4294967295"][rng.gen_range(0..4)];
            let c2 = ["18446744073709551615", "1", "4294967296"][rng.gen_range(0..3)];
            (format!("position fen rnbqkbnr/pppppppp/8/8/8/8/PPPPPPPP/RNBQKBNR w KQkq - {} {} moves g1f3 g8f6 f3g1", c, c2), true)
        }
        9 => {
            if rng.gen_bool(0.6) {
                // the standard go vocabulary with odd values (an engine may or may not implement these tokens)
                let words = ["wtime", "btime", "winc", "binc", "movestogo", "nodes", "mate", "depth", "movetime", "searchmoves", "ponder", "infinite"];
                let vals = ["0", "1", "-1", "60000", "-60000", "2147483647", "-2147483648", "4294967296", "9223372036854775807", "99999999999999999999", "abc", "", "0.5", "e2e4"];
                let mut l = String::from("go");
                for _ in 0..rng.gen_range(1..6) {
                    l.push(' ');
                    l.push_str(words[rng.gen_range(0..words.len())]);
                    if rng.gen_bool(0.85) {
                        l.push(' ');
                        l.push_str(vals[rng.gen_range(0..vals.len())]);
                    }
                }
                (l, false)
            } else {
                (format!("{} {}", ["positon", "isreadyy", "stopp", "GO", "Position", "quit?"][rng.gen_range(0..6)], tok(rng)), false)
            }
        }
        10 => (format!("position startpos moves {}", (0..rng.gen_range(1..6)).map(|_| tok(rng)).collect::<Vec<_>>().join(" ")), true),
        _ => (format!("position fen {}/8/8/8/8/8/8/{} w - - 0 1 moves a1a2", "8".repeat(rng.gen_range(1..40)), "K7"), true),
    }
}

fn process_level(ctx: &Ctx, bin: &str, label: &str, rep: &mut Report) {
    let mut rng = gen::shard_rng(ctx.seed, ctx.shard, if label == "release" { 141 } else { 142 });
    let mut n = ctx.n(600, 40_000);
    while n > 0 && ctx.time_left() {
        // one process takes a handful of hostile lines; each is followed by isready
        let mut script = vec![Cmd::Uci];
        for _ in 0..rng.gen_range(3..12) {
            let (line, resync) = hostile_line(&mut rng);
            if let Some(spec) = line.strip_prefix("go ") {
                // a go with a bad argument still starts a search (with defaults): it is a go for the automaton.
                // From the start position the opening book answers before any search is set up, so most
                // hostile go lines are sent on a position outside the book
                if rng.gen_bool(0.7) {
                    let fen = ["4k3/8/8/8/8/8/4P3/4K3 w - - 0 1", "r1bq1rk1/pp2bppp/2n1pn2/2pp4/3P1B2/2PBPN2/PP1N1PPP/R2QK2R w KQ - 2 8", "8/2p5/3p4/KP5r/1R3p1k/8/4P1P1/8 w - - 0 1"][rng.gen_range(0..3)];
                    script.push(Cmd::Position { fen: Some(fen.into()), moves: vec![] });
                }
                script.push(Cmd::Go { spec: spec.to_string(), wait: false });
                script.push(Cmd::IsReady);
                script.push(Cmd::Stop);
            } else {
                script.push(Cmd::Raw(line));
            }
            script.push(Cmd::IsReady);
            if resync {
                script.push(Cmd::Position { fen: None, moves: vec![] });
            }
            n = n.saturating_sub(1);
        }
        // and it still plays afterwards
        script.push(Cmd::Position { fen: Some("4k3/8/8/8/8/8/4P3/4K3 w - - 0 1".into()), moves: vec![] });
        script.push(Cmd::Go { spec: "depth 1".into(), wait: true });
        script.push(Cmd::Quit);
        let mut s = match Session::new(bin, &[]) {
            Ok(s) => s,
            Err(e) => {
                rep.inconclusive(&format!("cannot start {}: {}", bin, e));
                return;
            }
        };
        // the property asks for liveness after a hostile line, not for an answer to a malformed go
        s.lenient = true;
        let out = s.run(&script);
        rep.count(&format!("hostile_lines_{}", label), script.iter().filter(|c| matches!(c, Cmd::Raw(_)) || matches!(c, Cmd::Go { wait: false, .. })).count() as u64);
        // which line killed it? the last Raw before the log ends
        if let Some((kind, _)) = &out.violation {
            let last_raw = out.log_tail.iter().rev().find(|l| l.starts_with("> ") && !l.starts_with("> isready")).cloned().unwrap_or_default();
            let panic_site = out.log_tail.iter().find(|l| l.contains("panicked at")).cloned().unwrap_or_default();
            let site = panic_site.split("panicked at ").nth(1).unwrap_or("").trim_end_matches(':').to_string();
            let sig = format!("uci-{}|{}|{}", kind, label, if site.is_empty() { last_raw.chars().take(80).collect::<String>() } else { site });
            rep.eval(1);
            rep.count("sessions", 1);
            rep.violation(&format!("uci-{}", kind), &sig, &format!("{} binary: after '{}' the process is gone or silent ({})\nlog tail:\n{}", label, last_raw.chars().take(200).collect::<String>(), panic_site, out.log_tail.join("\n")), json!({"script": crate::mon::c07::script_to_json(&script), "binary": label}));
        } else {
            judge(&script, &out, "uci-", rep);
        }
    }
}

pub fn run(ctx: &Ctx, rep: &mut Report) {
    if let Some(path) = &ctx.replay {
        let v: Value = serde_json::from_slice(&std::fs::read(path).expect("replay file")).expect("replay json");
        if let Some(t) = v.get("text").and_then(|t| t.as_str()) {
            let r = if v["kind"] == "san" { guard(|| try_from_notation::<MoveQuery, San>(t).is_ok()) } else { guard(|| try_from_notation::<State, Fen>(t).is_ok()) };
            rep.eval(1);
            if let Err(e) = r {
                rep.violation("parse-panic", &format!("parse-panic|replay|{}", e.rsplit(" @ ").next().unwrap_or("")), &e, json!({"text": t, "kind": v["kind"]}));
            }
        } else if v.get("script").is_some() {
            let script = crate::mon::c07::script_from_json(&v["script"]);
            let bin = if v["binary"] == "checked" { ctx.bin2.clone() } else { ctx.bin.clone() };
            if let Some(bin) = bin {
                if let Ok(s) = Session::new(&bin, &[]) {
                    let out = s.run(&script);
                    judge(&script, &out, "uci-", rep);
                }
            }
        }
        return;
    }
    match ctx.mode.as_str() {
        "library" | "library-plain" | "library-debug" | "miri" => {
            if ctx.mode == "miri" {
                // a small sample of SAN strings under the interpreter (the FEN reader needs the regex engine: too slow)
                let mut rng = gen::shard_rng(ctx.seed, ctx.shard, 14);
                for _ in 0..300 {
                    let t = if rng.gen_bool(0.7) { mutated_san(&mut rng) } else { random_text(&mut rng).chars().take(40).collect() };
                    rep.eval(1);
                    if let Err(e) = guard(|| try_from_notation::<MoveQuery, San>(&t).is_ok()) {
                        rep.violation("san-parse-panic", &format!("san-parse-panic|miri|{}", e.rsplit(" @ ").next().unwrap_or("")), &e, json!({"text": t, "kind": "san"}));
                    }
                    rep.distinct(fnv(&t));
                }
                rep.count("miri_san_strings", 300);
            } else {
                library(ctx, rep)
            }
        }
        _ => {
            if let Some(b) = &ctx.bin {
                process_level(ctx, b, "release", rep);
            }
            if let Some(b) = &ctx.bin2 {
                process_level(ctx, b, "checked", rep);
            }
        }
    }
    let _ = Pos::start();
}
