//! Conversions between weechess values and the oracle's, through public accessors only.
//! `State`/`Board` are never compared with `==` (their PartialEq includes a lazily filled cache).

use crate::oracle::rules::*;
use weechess_core::{
    utils::ArrayMap, BitBoard, Board, CastleRights, Clock, Color, Move, Piece, PieceIndex, Side,
    Square, State,
};

pub fn kind_of(p: Piece) -> Kind {
    match p {
        Piece::Pawn => Kind::P,
        Piece::Knight => Kind::N,
        Piece::Bishop => Kind::B,
        Piece::Rook => Kind::R,
        Piece::Queen => Kind::Q,
        Piece::King => Kind::K,
        Piece::None => panic!("Piece::None has no kind"),
    }
}

pub fn piece_of(k: Kind) -> Piece {
    match k {
        Kind::P => Piece::Pawn,
        Kind::N => Piece::Knight,
        Kind::B => Piece::Bishop,
        Kind::R => Piece::Rook,
        Kind::Q => Piece::Queen,
        Kind::K => Piece::King,
    }
}

pub fn sq(s: u8) -> Square {
    Square::try_from(s).unwrap()
}

pub fn sq_u8(s: Square) -> u8 {
    s.into()
}

pub fn color(white: bool) -> Color {
    if white {
        Color::White
    } else {
        Color::Black
    }
}

pub fn bb(b: BitBoard) -> u64 {
    b.into()
}

/// Read a weechess state through its accessors
pub fn to_pos(s: &State) -> Pos {
    let mut b = [0i8; 64];
    for i in 0..64u8 {
        if let Some(pi) = s.board().piece_at(sq(i)) {
            let k = kind_of(pi.piece()) as i8;
            b[i as usize] = if pi.color() == Color::White { k } else { -k };
        }
    }
    let mut castle = 0;
    if s.castle_rights(Color::White).kingside {
        castle |= WK
    }
    if s.castle_rights(Color::White).queenside {
        castle |= WQ
    }
    if s.castle_rights(Color::Black).kingside {
        castle |= BK
    }
    if s.castle_rights(Color::Black).queenside {
        castle |= BQ
    }
    Pos {
        b,
        wtm: s.turn_to_move() == Color::White,
        castle,
        ep: s.en_passant_target().map(sq_u8),
        half: s.clock().halfmove_clock as u64,
        full: s.clock().fullmove_number as u64,
    }
}

/// Build a weechess state from an oracle position through the public constructors
/// (no FEN involved)
pub fn to_state(p: &Pos) -> State {
    let mut map = Board::empty_map();
    for i in 0..64u8 {
        let v = p.b[i as usize];
        if v != 0 {
            map[sq(i)] = PieceIndex::new(color(v > 0), piece_of(Kind::from_i8(v)));
        }
    }
    let mut rights: ArrayMap<Color, CastleRights> = ArrayMap::filled(CastleRights::NONE);
    rights[Color::White] = CastleRights { kingside: p.castle & WK != 0, queenside: p.castle & WQ != 0 };
    rights[Color::Black] = CastleRights { kingside: p.castle & BK != 0, queenside: p.castle & BQ != 0 };
    State::new(
        Board::from(&map),
        color(p.wtm),
        rights,
        p.ep.map(sq),
        Clock { halfmove_clock: p.half as usize, fullmove_number: p.full as usize },
    )
}

pub fn to_omove(m: &Move) -> OMove {
    OMove {
        from: sq_u8(m.origin()),
        to: sq_u8(m.destination()),
        piece: kind_of(m.piece()),
        white: m.color() == Color::White,
        capture: m.capture().map(kind_of),
        promo: m.promotion().map(kind_of),
        ep: m.is_en_passant(),
        castle: m.castle_side().map(|s| s == Side::King),
        double: m.is_double_pawn(),
    }
}

/// Same position by every field an accessor exposes
pub fn same_position(s: &State, p: &Pos) -> bool {
    to_pos(s) == *p
}

pub fn omove_str(m: &OMove) -> String {
    format!(
        "{}{}{}{}{}{}{}",
        m.piece.letter(),
        sq_name(m.from),
        sq_name(m.to),
        m.capture.map(|c| format!("x{}", c.letter())).unwrap_or_default(),
        m.promo.map(|c| format!("={}", c.letter())).unwrap_or_default(),
        if m.ep { " ep" } else { "" },
        match m.castle {
            Some(true) => " O-O",
            Some(false) => " O-O-O",
            None => "",
        }
    ) + if m.double { " dbl" } else { "" }
}
