#![feature(generic_const_exprs)]
#![allow(incomplete_features)]
#![allow(dead_code)]

mod conv;
mod gen;
mod mon;
mod oracle;
mod pgn;
mod report;
mod scenario;
mod srch;
mod uci;
mod selftest;
mod util;

use report::{Ctx, Report};
use std::time::Instant;

fn main() {
    let args: Vec<String> = std::env::args().collect();
    if args.len() < 2 {
        eprintln!("usage: wv <C01..C20|selftest> [--tier quick|thorough] [--seed N] [--shard I --of N] [--out F] [--replay F] [--mode M] [--bin P] [--bin2 P]");
        std::process::exit(64);
    }
    let mut ctx = Ctx {
        prop: args[1].clone(),
        tier: std::env::var("VERIF_TIER").unwrap_or_else(|_| "quick".into()),
        seed: std::env::var("VERIF_SEED").ok().and_then(|s| s.parse().ok()).unwrap_or(1),
        shard: 0,
        of: 1,
        out: None,
        replay: None,
        mode: String::new(),
        bin: None,
        bin2: None,
        scale: std::env::var("VERIF_SCALE").ok().and_then(|s| s.parse().ok()).unwrap_or(1.0),
        start: Instant::now(),
        budget_s: 0.0,
    };
    let mut i = 2;
    while i < args.len() {
        let v = args.get(i + 1).cloned().unwrap_or_default();
        match args[i].as_str() {
            "--tier" => ctx.tier = v,
            "--seed" => ctx.seed = v.parse().expect("seed"),
            "--shard" => ctx.shard = v.parse().expect("shard"),
            "--of" => ctx.of = v.parse().expect("of"),
            "--out" => ctx.out = Some(v),
            "--replay" => ctx.replay = Some(v),
            "--mode" => ctx.mode = v,
            "--bin" => ctx.bin = Some(v),
            "--bin2" => ctx.bin2 = Some(v),
            "--scale" => ctx.scale = v.parse().expect("scale"),
            "--budget" => ctx.budget_s = v.parse().expect("budget"),
            x => {
                eprintln!("unknown argument {}", x);
                std::process::exit(64);
            }
        }
        i += 2;
    }
    if ctx.budget_s == 0.0 {
        ctx.budget_s = if ctx.thorough() { 600.0 } else { 45.0 };
    }
    util::install_panic_hook();
    let mut rep = Report::new();
    // a panic anywhere in the harness itself must never look like a pass
    let res = std::panic::catch_unwind(std::panic::AssertUnwindSafe(|| mon::run(&ctx, &mut rep)));
    if let Err(e) = res {
        let msg = e.downcast_ref::<String>().cloned().or_else(|| e.downcast_ref::<&str>().map(|s| s.to_string())).unwrap_or_default();
        rep.inconclusive(&format!("harness panic outside a monitored call: {}", msg));
    }
    rep.write(&ctx);
    let code = if rep.violation_count > 0 {
        1
    } else if !rep.inconclusive.is_empty() {
        2
    } else {
        0
    };
    std::process::exit(code);
}
