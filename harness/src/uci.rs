//! Driver for `weechess uci`: one child process, a totally ordered log of everything sent and
//! received (stdout and stderr), and helpers that wait on *order*, not on deadlines.

use std::io::{BufRead, BufReader, Write};
use std::process::{Child, ChildStdin, Command, Stdio};
use std::sync::mpsc::{self, Receiver, RecvTimeoutError};
use std::time::{Duration, Instant};

#[derive(Clone, Debug, PartialEq)]
pub enum Src {
    Out,
    Err,
    Eof(bool),
}

pub struct Eng {
    pub child: Child,
    stdin: Option<ChildStdin>,
    rx: Receiver<(Src, String)>,
    pub log: Vec<String>,
    pub pid: u32,
    pub out_eof: bool,
    /// stdout lines read but not yet consumed by the session logic
    pub pending: std::collections::VecDeque<(Src, String)>,
    /// bound (clock ticks) on the CPU time of the process' main thread during one wait; None = no bound
    pub busy_main_ticks: Option<u64>,
}

#[derive(Debug, PartialEq)]
pub enum Wait {
    Got,
    /// the process produced nothing and used no CPU for the stall period
    Hung,
    /// stdout closed
    Closed,
    /// still burning CPU / printing after the (generous) outer limit: inconclusive
    Slow,
    /// the thread that reads the commands (the process' main thread) used more CPU time than `busy_main_ticks`
    /// since the wait began without producing the awaited line
    Busy,
}

/// utime + stime of the main thread alone (/proc/pid/task/pid/stat): a logical clock that other threads' work and
/// the load of the machine do not advance
fn main_thread_ticks(pid: u32) -> u64 {
    let Ok(s) = std::fs::read_to_string(format!("/proc/{}/task/{}/stat", pid, pid)) else { return 0 };
    let Some(i) = s.rfind(')') else { return 0 };
    let f: Vec<&str> = s[i + 1..].split_whitespace().collect();
    f.get(11).and_then(|x| x.parse::<u64>().ok()).unwrap_or(0) + f.get(12).and_then(|x| x.parse::<u64>().ok()).unwrap_or(0)
}

fn cpu_ticks(pid: u32) -> u64 {
    // utime + stime of the whole process (fields 14, 15 of /proc/pid/stat)
    let Ok(s) = std::fs::read_to_string(format!("/proc/{}/stat", pid)) else { return 0 };
    let Some(i) = s.rfind(')') else { return 0 };
    let f: Vec<&str> = s[i + 1..].split_whitespace().collect();
    f.get(11).and_then(|x| x.parse::<u64>().ok()).unwrap_or(0) + f.get(12).and_then(|x| x.parse::<u64>().ok()).unwrap_or(0)
}

impl Eng {
    pub fn spawn(bin: &str, wrapper: &[String]) -> std::io::Result<Eng> {
        let mut cmd = if wrapper.is_empty() {
            Command::new(bin)
        } else {
            let mut c = Command::new(&wrapper[0]);
            c.args(&wrapper[1..]).arg(bin);
            c
        };
        let mut child = cmd.arg("uci").stdin(Stdio::piped()).stdout(Stdio::piped()).stderr(Stdio::piped()).env("RUST_BACKTRACE", "0").spawn()?;
        let stdin = child.stdin.take();
        let out = child.stdout.take().unwrap();
        let err = child.stderr.take().unwrap();
        let (tx, rx) = mpsc::channel();
        let tx2 = tx.clone();
        std::thread::spawn(move || {
            for l in BufReader::new(out).lines() {
                match l {
                    Ok(l) => {
                        if tx.send((Src::Out, l)).is_err() {
                            return;
                        }
                    }
                    Err(_) => break,
                }
            }
            let _ = tx.send((Src::Eof(true), String::new()));
        });
        std::thread::spawn(move || {
            for l in BufReader::new(err).lines() {
                match l {
                    Ok(l) => {
                        if tx2.send((Src::Err, l)).is_err() {
                            return;
                        }
                    }
                    Err(_) => break,
                }
            }
            let _ = tx2.send((Src::Eof(false), String::new()));
        });
        let pid = child.id();
        Ok(Eng { child, stdin, rx, log: vec![], pid, out_eof: false, pending: Default::default(), busy_main_ticks: None })
    }

    pub fn send(&mut self, line: &str) {
        let shown: String = line.chars().take(300).collect();
        self.log.push(format!("> {}", shown));
        if let Some(s) = self.stdin.as_mut() {
            let _ = writeln!(s, "{}", line);
            let _ = s.flush();
        }
    }

    pub fn close_stdin(&mut self) {
        self.log.push("> <EOF>".into());
        self.stdin = None;
    }

    /// next line from the process (stdout or stderr), waiting at most `d`
    pub fn next(&mut self, d: Duration) -> Option<(Src, String)> {
        match self.rx.recv_timeout(d) {
            Ok((src, l)) => {
                match &src {
                    Src::Out => self.log.push(format!("< {}", l.chars().take(300).collect::<String>())),
                    Src::Err => self.log.push(format!("! {}", l.chars().take(300).collect::<String>())),
                    Src::Eof(true) => {
                        self.out_eof = true;
                        self.log.push("< <EOF>".into())
                    }
                    Src::Eof(false) => {}
                }
                Some((src, l))
            }
            Err(RecvTimeoutError::Timeout) => None,
            Err(RecvTimeoutError::Disconnected) => {
                self.out_eof = true;
                None
            }
        }
    }

    /// Read until `pred` holds for a line; every line read is passed to `on_line` first.
    /// Decides by liveness, not by a deadline: gives up as Hung only when the process printed
    /// nothing *and* used no CPU for `stall`, as Slow after `outer`.
    pub fn wait_for(&mut self, mut on_line: impl FnMut(&Src, &str), mut pred: impl FnMut(&Src, &str) -> bool, stall: Duration, outer: Duration) -> Wait {
        let t0 = Instant::now();
        let mut last_activity = Instant::now();
        let mut last_cpu = cpu_ticks(self.pid);
        let main0 = main_thread_ticks(self.pid);
        loop {
            if let Some(b) = self.busy_main_ticks {
                if main_thread_ticks(self.pid).saturating_sub(main0) > b {
                    return Wait::Busy;
                }
            }
            match self.next(Duration::from_millis(100)) {
                Some((src, l)) => {
                    last_activity = Instant::now();
                    if let Src::Eof(true) = src {
                        return Wait::Closed;
                    }
                    on_line(&src, &l);
                    if pred(&src, &l) {
                        return Wait::Got;
                    }
                }
                None => {
                    if self.out_eof {
                        return Wait::Closed;
                    }
                    let c = cpu_ticks(self.pid);
                    if c != last_cpu {
                        last_cpu = c;
                        last_activity = Instant::now();
                    }
                    if last_activity.elapsed() > stall {
                        return Wait::Hung;
                    }
                }
            }
            if t0.elapsed() > outer {
                return Wait::Slow;
            }
        }
    }

    /// exit status after the process was asked to end; kills it if it does not
    pub fn finish(&mut self, grace: Duration) -> Option<i32> {
        let t0 = Instant::now();
        loop {
            match self.child.try_wait() {
                Ok(Some(st)) => {
                    use std::os::unix::process::ExitStatusExt;
                    let code = st.code().or_else(|| st.signal().map(|s| 128 + s));
                    self.log.push(format!("= exit {:?}", code));
                    return code;
                }
                Ok(None) => {
                    // keep the pipes drained
                    while self.next(Duration::from_millis(20)).is_some() {}
                    if t0.elapsed() > grace {
                        let _ = self.child.kill();
                        let _ = self.child.wait();
                        self.log.push("= killed by the driver".into());
                        return None;
                    }
                }
                Err(_) => return None,
            }
        }
    }

    pub fn kill(&mut self) {
        let _ = self.child.kill();
        let _ = self.child.wait();
    }

    pub fn tail(&self, n: usize) -> Vec<String> {
        self.log.iter().rev().take(n).rev().cloned().collect()
    }
}

impl Drop for Eng {
    fn drop(&mut self) {
        let _ = self.child.kill();
        let _ = self.child.wait();
    }
}
