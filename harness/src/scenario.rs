//! A scenario is a history of searches on one reused artifact: the unit of replay for the
//! search properties (C03 C04 C06 C17 C19).

use crate::conv::*;
use crate::oracle::rules::Pos;
use crate::srch::{self, Cfg, Out};
use serde_json::{json, Value};
use std::sync::atomic::Ordering::*;
use weechess_engine::eval::Evaluator;
use weechess_engine::searcher::verif::{self, Cancel};

#[derive(Clone, Debug)]
pub struct Step {
    pub fen: String,
    pub depth: Option<usize>,
    pub workers: Option<usize>,
    pub seed: u64,
    /// send Stop when the k-th node of this search is entered (0 = before the search starts)
    pub cancel_at: Option<u64>,
    /// (seed, probability per table access in 1/65536)
    pub delay: Option<(u64, u64)>,
    /// (thread index, at its n-th table access, microseconds)
    pub stall: Option<(usize, u64, u64)>,
    /// positions recorded in the artifact's history before this search starts
    pub record: Vec<String>,
}

impl Step {
    pub fn new(fen: &str, depth: usize, workers: usize, seed: u64) -> Step {
        Step { fen: fen.to_string(), depth: Some(depth), workers: Some(workers), seed, cancel_at: None, delay: None, stall: None, record: vec![] }
    }
}

#[derive(Clone, Debug)]
pub struct Scenario {
    pub tables: usize,
    pub buckets: usize,
    pub hasher_seed: u64,
    pub steps: Vec<Step>,
}

pub struct StepResult {
    pub out: Out,
    pub nodes: u64,
    pub qnodes: u64,
    pub max_thread_qnodes_after_cancel: u64,
    pub finds: u64,
    pub inserts: u64,
    pub cancel_seen: bool,
    pub nodes_at_cancel: u64,
    pub max_thread_nodes_after_cancel: u64,
    pub threads: usize,
    pub delays: u64,
    pub signature: u64,
    pub entries: (usize, usize),
}

impl Scenario {
    pub fn to_json(&self) -> Value {
        json!({
            "tables": self.tables, "buckets": self.buckets, "hasher_seed": self.hasher_seed,
            "steps": self.steps.iter().map(|s| json!({
                "fen": s.fen, "depth": s.depth, "workers": s.workers, "seed": s.seed, "cancel_at": s.cancel_at,
                "delay": s.delay.map(|d| vec![d.0, d.1]), "stall": s.stall.map(|d| vec![d.0 as u64, d.1, d.2]), "record": s.record,
            })).collect::<Vec<_>>()
        })
    }

    pub fn from_json(v: &Value) -> Scenario {
        Scenario {
            tables: v["tables"].as_u64().unwrap() as usize,
            buckets: v["buckets"].as_u64().unwrap() as usize,
            hasher_seed: v["hasher_seed"].as_u64().unwrap(),
            steps: v["steps"].as_array().unwrap().iter().map(|s| Step {
                fen: s["fen"].as_str().unwrap().to_string(),
                depth: s["depth"].as_u64().map(|d| d as usize),
                workers: s["workers"].as_u64().map(|d| d as usize),
                seed: s["seed"].as_u64().unwrap(),
                cancel_at: s["cancel_at"].as_u64(),
                delay: s["delay"].as_array().map(|a| (a[0].as_u64().unwrap(), a[1].as_u64().unwrap())),
                stall: s["stall"].as_array().map(|a| (a[0].as_u64().unwrap() as usize, a[1].as_u64().unwrap(), a[2].as_u64().unwrap())),
                record: s["record"].as_array().map(|a| a.iter().map(|x| x.as_str().unwrap().to_string()).collect()).unwrap_or_default(),
            }).collect(),
        }
    }

    /// run all steps on one artifact; `on_step` judges each (return false to stop)
    pub fn run(&self, ev: &Evaluator, mut on_step: impl FnMut(usize, &Step, &StepResult) -> bool) {
        srch::install_observer();
        let mut artifact = Some(verif::small_artifact(self.hasher_seed, self.tables, self.buckets));
        for (i, step) in self.steps.iter().enumerate() {
            let p = Pos::from_fen(&step.fen).expect("scenario fen");
            let st = to_state(&p);
            let mut art = artifact.take().unwrap_or_else(|| verif::small_artifact(self.hasher_seed, self.tables, self.buckets));
            for r in step.record.iter() {
                verif::record_history(&mut art, &to_state(&Pos::from_fen(r).expect("record fen")));
            }
            srch::reset();
            let cancel = Cancel::new();
            if let Some((seed, p)) = step.delay {
                srch::set_delays(seed, p);
            }
            if let Some((t, at, us)) = step.stall {
                srch::set_stall(t, at, us);
            }
            match step.cancel_at {
                Some(0) => cancel.cancel(),
                Some(k) => {
                    let c = cancel.clone();
                    srch::set_trigger(k, Box::new(move || c.cancel()));
                }
                None => {}
            }
            let cfg = Cfg { depth: step.depth, workers: step.workers, seed: step.seed };
            let mut out = srch::search(&st, ev, &cfg, &cancel, Some(art));
            artifact = out.artifact.take();
            let res = StepResult {
                nodes: srch::NODES.load(SeqCst),
                qnodes: srch::QNODES.load(SeqCst),
                max_thread_qnodes_after_cancel: srch::MAX_THREAD_QNODES_AFTER_CANCEL.load(SeqCst),
                finds: srch::FINDS.load(SeqCst),
                inserts: srch::INSERTS.load(SeqCst),
                cancel_seen: srch::CANCEL_SEEN.load(SeqCst),
                nodes_at_cancel: srch::NODES_AT_CANCEL.load(SeqCst),
                max_thread_nodes_after_cancel: srch::MAX_THREAD_NODES_AFTER_CANCEL.load(SeqCst),
                threads: srch::THREADS_SEEN.load(SeqCst),
                delays: srch::DELAYS_INJECTED.load(SeqCst),
                signature: srch::signature(),
                entries: artifact.as_ref().map(verif::artifact_entries).unwrap_or((0, 0)),
                out,
            };
            srch::reset();
            let panicked = res.out.panic.is_some();
            if !on_step(i, step, &res) || panicked {
                return;
            }
        }
    }
}
