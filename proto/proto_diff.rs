#![feature(generic_const_exprs)]
#![allow(incomplete_features)]
#[path = "../oracle.rs"] mod oracle;
use oracle::*;
use weechess_core::{notation::{self, into_notation, try_from_notation, Fen, San, lan::Lan}, *};
use weechess_engine::eval::Evaluator;
use rand::{Rng, SeedableRng};

fn kind_of(p: Piece) -> Kind { match p { Piece::Pawn=>Kind::P, Piece::Knight=>Kind::N, Piece::Bishop=>Kind::B, Piece::Rook=>Kind::R, Piece::Queen=>Kind::Q, Piece::King=>Kind::K, Piece::None=>panic!() } }
fn to_pos(s: &State) -> Pos {
    let mut b = [0i8;64];
    for sq in 0..64u8 { if let Some(pi) = s.board().piece_at(Square::try_from(sq).unwrap()) { let k = kind_of(pi.piece()) as i8; b[sq as usize] = if pi.color()==Color::White {k} else {-k}; } }
    let mut castle = 0;
    if s.castle_rights(Color::White).kingside { castle |= WK } if s.castle_rights(Color::White).queenside { castle |= WQ }
    if s.castle_rights(Color::Black).kingside { castle |= BK } if s.castle_rights(Color::Black).queenside { castle |= BQ }
    Pos { b, wtm: s.turn_to_move()==Color::White, castle, ep: s.en_passant_target().map(|q| { let v: u8 = q.into(); v }), half: s.clock().halfmove_clock as u64, full: s.clock().fullmove_number as u64 }
}
fn to_omove(m: &Move) -> OMove {
    let f: u8 = m.origin().into(); let t: u8 = m.destination().into();
    OMove { from: f, to: t, piece: kind_of(m.piece()), white: m.color()==Color::White, capture: m.capture().map(kind_of), promo: m.promotion().map(kind_of), ep: m.is_en_passant(), castle: m.castle_side().map(|s| s==Side::King), double: m.is_double_pawn() }
}
fn bb(b: BitBoard) -> u64 { b.into() }

fn main() {
    // oracle self test
    for (f, d, n) in [("rnbqkbnr/pppppppp/8/8/8/8/PPPPPPPP/RNBQKBNR w KQkq - 0 1", 4, 197281u64), ("r3k2r/p1ppqpb1/bn2pnp1/3PN3/1p2P3/2N2Q1p/PPPBBPPP/R3K2R w KQkq - 0 1", 3, 97862), ("8/2p5/3p4/KP5r/1R3p1k/8/4P1P1/8 w - - 0 1", 5, 674624), ("r3k2r/Pppp1ppp/1b3nbN/nP6/BBP1P3/q4N2/Pp1P2PP/R2Q1RK1 w kq - 0 1", 4, 422333), ("rnbq1k1r/pp1Pbppp/2p5/8/2B5/8/PPP1NnPP/RNBQK2R w KQ - 1 8", 3, 62379), ("r4rk1/1pp1qppp/p1np1n2/2b1p1B1/2B1P1b1/P1NP1N2/1PP1QPPP/R4RK1 w - - 0 10", 3, 89890)] {
        let got = Pos::from_fen(f).unwrap().perft(d);
        println!("oracle perft {} d{} = {} {}", &f[..20], d, got, if got==n {"OK"} else {"MISMATCH"});
    }
    let seed: u64 = std::env::args().nth(1).unwrap().parse().unwrap();
    let games: usize = std::env::args().nth(2).unwrap().parse().unwrap();
    let mut rng = rand_chacha::ChaCha8Rng::seed_from_u64(seed);
    let ev = Evaluator::default();
    let hasher = ZobristHasher::with(&mut rand_chacha::ChaCha8Rng::seed_from_u64(99));
    let (mut npos, mut nmoves, mut bad, mut sans, mut negs) = (0usize,0usize,0usize,0usize,0usize);
    let mut feats = [0usize; 8]; // check, ep legal, ep illegal pseudo, castle, promo, mate, stalemate, illegal pseudo
    let t = std::time::Instant::now();
    macro_rules! fail { ($($a:tt)*) => {{ bad+=1; if bad < 30 { println!($($a)*); } }} }
    for _g in 0..games {
        let mut pos = Pos::start();
        let mut st = State::default();
        for _ply in 0..rng.gen_range(20..220) {
            npos += 1;
            // C11: FEN equality + roundtrip
            let wf = into_notation::<_, Fen>(&st).to_string();
            if wf != pos.fen() { fail!("FEN differ: {} vs {}", wf, pos.fen()); break; }
            let rt = try_from_notation::<State, Fen>(&wf).unwrap();
            if into_notation::<_, Fen>(&rt).to_string() != wf { fail!("FEN roundtrip {}", wf); }
            if hasher.hash(&rt) != hasher.hash(&st) { fail!("hash after roundtrip {}", wf); }
            // C01: move sets
            let legal = pos.legal_moves();
            let wm = MoveGenerator::compute_legal_moves(&st);
            let mut a: Vec<OMove> = wm.moves().iter().map(|m| to_omove(&m.0)).collect(); a.sort();
            let mut b = legal.clone(); b.sort();
            if a != b { fail!("MOVES differ at {}: w={} o={}", wf, a.len(), b.len()); break; }
            nmoves += a.len();
            // features
            if pos.in_check(pos.wtm) { feats[0]+=1; }
            if pos.ep_legal() { feats[1]+=1; } else if pos.ep_pseudo() { feats[2]+=1; }
            if legal.iter().any(|m| m.castle.is_some()) { feats[3]+=1; }
            if legal.iter().any(|m| m.promo.is_some()) { feats[4]+=1; }
            // C10
            for white in [true,false] {
                let c = if white {Color::White} else {Color::Black};
                let exp = pos.attack_set(white) & !pos.occupancy(white);
                if bb(st.board().colored_attacks(c)) != exp { fail!("ATTACKS differ {} {}", wf, white); }
                let expp = pos.pawn_attack_set(white) & !pos.occupancy(white);
                if bb(st.board().colored_pawn_attacks(c)) != expp { fail!("PAWN ATTACKS differ {} {}", wf, white); }
                if st.board().is_check(c) != pos.in_check(white) { fail!("CHECK differ {} {}", wf, white); }
            }
            // C13
            let mir = pos.mirror();
            let ms = try_from_notation::<State, Fen>(&mir.fen()).unwrap();
            for ply in [0usize, 3, 12] {
                let w = ev.evaluate(&st, Color::White, ply); let bl = ev.evaluate(&st, Color::Black, ply);
                if w != -bl { fail!("EVAL antisym {} {:?} {:?}", wf, w, bl); }
                if ev.evaluate(&ms, Color::Black, ply) != w { fail!("EVAL mirror {} {:?} {:?}", wf, w, ev.evaluate(&ms, Color::Black, ply)); }
            }
            // C05
            let e = ev.evaluate(&st, st.turn_to_move(), 2);
            if legal.is_empty() {
                if pos.in_check(pos.wtm) { feats[5]+=1; if e != -weechess_engine::eval::Evaluation::mate_in_ply(2) { fail!("MATE eval {} {:?}", wf, e); } }
                else { feats[6]+=1; if e != weechess_engine::eval::Evaluation::EVEN { fail!("STALEMATE eval {} {:?}", wf, e); } }
                break;
            } else if e.is_terminal() { fail!("TERMINAL eval with moves {} {:?}", wf, e); }
            // C02 + C12 per move
            for (i, m) in wm.moves().iter().enumerate() {
                let om = to_omove(&m.0);
                let succ = pos.make(&om);
                if to_pos(&m.1) != succ { fail!("SUCC differ {} {:?}: {} vs {}", wf, om, into_notation::<_,Fen>(&m.1), succ.fen()); }
                if i % 3 == 0 {
                    for s in pos.san_spellings(&om, &legal) {
                        sans += 1;
                        match try_from_notation::<MoveQuery, San>(&s) {
                            Err(_) => fail!("SAN parse fail {} {}", wf, s),
                            Ok(q) => { let hits: Vec<_> = wm.filter(q).collect(); if hits.len()!=1 || to_omove(&hits[0].0) != om { fail!("SAN resolve {} {} hits={}", wf, s, hits.len()); } }
                        }
                    }
                    // LAN
                    let l = into_notation::<_, Lan>(&m.0).to_string();
                    if l != Pos::lan(&om) { fail!("LAN {} {} {}", wf, l, Pos::lan(&om)); }
                    let mut q = MoveQuery::by_moving_from_to(m.0.origin(), m.0.destination()); if let Some(p) = m.0.promotion() { q.set_promotion(p); }
                    match State::by_performing_moves(&st, &[q]) { Ok(ns) => if to_pos(&ns) != succ { fail!("COORD succ {} {}", wf, l); }, Err(e) => fail!("COORD err {} {} {:?}", wf, l, e) }
                }
            }
            for om in pos.illegal_pseudo_moves() {
                feats[7]+=1; negs+=1;
                let s = pos.san_full(&om);
                if let Ok(q) = try_from_notation::<MoveQuery, San>(&s) { let hits = wm.filter(q).count(); if hits != 0 {
                    // pawn notation carries no origin square: only a violation if the text is not the SAN of a legal move
                    let is_legal_text = legal.iter().any(|lm| pos.san_spellings(lm, &legal).contains(&s));
                    if !is_legal_text { fail!("NEG SAN matched {} {} hits={}", wf, s, hits); } } }
            }
            // advance: biased choice
            let w: Vec<usize> = legal.iter().map(|m| 1 + if m.capture.is_some() {2} else {0} + if m.promo.is_some() {6} else {0} + if m.castle.is_some() {8} else {0} + if m.double {1} else {0} + if m.piece==Kind::P {1} else {0}).collect();
            let tot: usize = w.iter().sum(); let mut r = rng.gen_range(0..tot); let mut idx=0; for (i,x) in w.iter().enumerate() { if r < *x { idx=i; break; } r -= x; }
            let om = legal[idx];
            let wmv = wm.moves().iter().find(|m| to_omove(&m.0)==om).unwrap();
            st = wmv.1.clone(); pos = pos.make(&om);
        }
    }
    println!("positions={} moves={} sans={} negs={} bad={} feats(check,epL,epX,castle,promo,mate,stale,illegalpseudo)={:?} {:?}", npos, nmoves, sans, negs, bad, feats, t.elapsed());
}
