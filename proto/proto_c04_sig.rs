#![feature(generic_const_exprs)]
#![allow(incomplete_features)]
use std::sync::{Arc, Mutex, atomic::{AtomicU64, AtomicBool, Ordering}};
use std::collections::{HashMap, HashSet};
use weechess_core::{notation::{self, Fen}, *};
use weechess_engine::{eval::Evaluator, searcher::{*, verif::*}};

fn fen(s: &str) -> State { notation::try_from_notation::<State, Fen>(s).unwrap() }

fn main() {
    let mode = std::env::args().nth(1).unwrap();
    let kiwi = "r3k2r/p1ppqpb1/bn2pnp1/3PN3/1p2P3/2N2Q1p/PPPBBPPP/R3K2R w KQkq - 0 1";
    let ev = Evaluator::default();
    match mode.as_str() {
        "overhead" => {
            for obs in [false, true] {
                let nodes = Arc::new(AtomicU64::new(0));
                if obs { let n = nodes.clone(); set_observer(Some(Arc::new(move |s, _| { if s == Site::Node { n.fetch_add(1, Ordering::Relaxed); } }))); } else { set_observer(None); }
                let t = std::time::Instant::now();
                let mut total = 0;
                let _ = analyze_sync(fen(kiwi), &ev, 1, Some(5), &Cancel::new(), Some(small_artifact(1, 8, 4096)), Some(1), &mut |e| { if let StatusEvent::Progress{nodes_searched,..}=e { total = nodes_searched; } });
                println!("observer={} nodes={} hooknodes={} {:?}", obs, total, nodes.load(Ordering::Relaxed), t.elapsed());
            }
        }
        "cancel" => {
            // cancel at node k, measure per-thread nodes after cancel
            for workers in [1usize, 4, 16, 32] { for k in [1u64, 100, 5000, 20000, 200000] {
                let total = Arc::new(AtomicU64::new(0));
                let cancelled = Arc::new(AtomicBool::new(false));
                let after: Arc<Mutex<HashMap<std::thread::ThreadId, u64>>> = Arc::new(Mutex::new(HashMap::new()));
                let cancel = Cancel::new();
                {
                    let (total, cancelled, after, cancel) = (total.clone(), cancelled.clone(), after.clone(), cancel.clone());
                    set_observer(Some(Arc::new(move |s, _| {
                        match s {
                            Site::Node => {
                                let n = total.fetch_add(1, Ordering::SeqCst) + 1;
                                if cancelled.load(Ordering::SeqCst) { *after.lock().unwrap().entry(std::thread::current().id()).or_insert(0) += 1; }
                                if n == k { cancel.cancel(); }
                            }
                            Site::Cancel => { cancelled.store(true, Ordering::SeqCst); }
                            _ => {}
                        }
                    })));
                }
                let t = std::time::Instant::now();
                let mut iters = 0;
                let _ = analyze_sync(fen(kiwi), &ev, 1, None, &cancel, Some(small_artifact(1, 8, 4096)), Some(workers), &mut |e| { if let StatusEvent::Progress{..}=e { iters += 1; } });
                let a = after.lock().unwrap();
                println!("workers={} k={} total={} iters={} max_after_per_thread={} threads_after={} {:?}", workers, k, total.load(Ordering::SeqCst), iters, a.values().max().copied().unwrap_or(0), a.len(), t.elapsed());
                set_observer(None);
            }}
        }
        "sig" => {
            // interleaving signatures with and without delay injection
            for inject in [false, true] {
                let mut sigs = HashSet::new();
                for run in 0..40u64 {
                    let log: Arc<Mutex<Vec<(std::thread::ThreadId, Site)>>> = Arc::new(Mutex::new(Vec::new()));
                    let l2 = log.clone();
                    let ctr = Arc::new(AtomicU64::new(run * 7919));
                    set_observer(Some(Arc::new(move |s, _| {
                        if s == Site::TableInsert || s == Site::TableFind {
                            { let mut l = l2.lock().unwrap(); if l.len() < 256 { l.push((std::thread::current().id(), s)); } }
                            if inject {
                                let x = ctr.fetch_add(0x9e3779b97f4a7c15, Ordering::Relaxed).wrapping_mul(0xbf58476d1ce4e5b9) >> 32;
                                if x % 16 == 0 { std::thread::yield_now(); }
                                if x % 257 == 0 { std::thread::sleep(std::time::Duration::from_micros(x % 300)); }
                            }
                        }
                    })));
                    let _ = analyze_sync(fen("8/2p5/3p4/KP5r/1R3p1k/8/4P1P1/8 w - - 0 1"), &ev, 1, Some(4), &Cancel::new(), Some(small_artifact(1, 2, 8)), Some(4), &mut |_| {});
                    set_observer(None);
                    // normalise thread ids by first appearance
                    let l = log.lock().unwrap();
                    let mut ids = HashMap::new();
                    let sig: Vec<(usize, bool)> = l.iter().map(|(t, s)| { let n = ids.len(); (*ids.entry(*t).or_insert(n), *s == Site::TableInsert) }).collect();
                    sigs.insert(sig);
                }
                println!("inject={} distinct_signatures={} of 40", inject, sigs.len());
            }
        }
        _ => {}
    }
}
