#![feature(generic_const_exprs)]
#![allow(incomplete_features)]
#[path = "../oracle.rs"] mod oracle;
use oracle::*;
use std::collections::{HashMap, BTreeSet};
use weechess_core::{notation::{try_from_notation, Fen}, *};
use weechess_engine::book::OpeningBook;

fn main() {
    let dir = std::env::args().nth(1).unwrap();
    let book = OpeningBook::try_default().unwrap();
    let mut map: HashMap<([i8;64],bool,u8,Option<u8>), (Pos, BTreeSet<String>)> = HashMap::new();
    let (mut games, mut plies, mut unresolved) = (0usize,0usize,0usize);
    let mut files: Vec<_> = std::fs::read_dir(&dir).unwrap().map(|e| e.unwrap().path()).collect(); files.sort();
    for f in files {
        let text = std::fs::read_to_string(&f).unwrap().replace("\r\n", "\n");
        // independent PGN reader: movetext = consecutive non-tag, non-empty lines
        let mut block = String::new();
        let mut blocks = vec![];
        for line in text.lines().chain(std::iter::once("")) {
            let l = line.trim();
            if l.is_empty() || l.starts_with('[') { if !block.trim().is_empty() { blocks.push(std::mem::take(&mut block)); } block.clear(); } else { block.push_str(l); block.push(' '); }
        }
        for b in blocks {
            games += 1;
            let mut pos = Pos::start();
            let mut n = 0;
            for tok in b.split_whitespace() {
                if n >= 10 { break; }
                // strip "12." / "12..." prefixes
                let t = match tok.rfind('.') { Some(i) if tok[..i].chars().all(|c| c.is_ascii_digit() || c=='.') => &tok[i+1..], _ => tok };
                if t.is_empty() || ["1-0","0-1","1/2-1/2","*"].contains(&t) { continue; }
                let legal = pos.legal_moves();
                let hits: Vec<&OMove> = legal.iter().filter(|m| pos.san_spellings(m, &legal).iter().any(|s| s == t)).collect();
                if hits.len() != 1 { unresolved += 1; println!("UNRESOLVED {} in {} ({} hits) {}", t, pos.fen(), hits.len(), f.display()); break; }
                let m = *hits[0];
                map.entry(pos.key()).or_insert_with(|| (pos.clone(), BTreeSet::new())).1.insert(Pos::lan(&m));
                pos = pos.make(&m); n += 1; plies += 1;
            }
        }
    }
    println!("games={} plies={} positions={} unresolved={}", games, plies, map.len(), unresolved);
    let (mut bad, mut checked, mut stripped) = (0usize,0usize,0usize);
    for (_k, (pos, set)) in map.iter() {
        let mut variants = vec![pos.clone()];
        if pos.ep.is_some() && !pos.ep_legal() { let mut p = pos.clone(); p.ep = None; variants.push(p); stripped += 1; }
        for p in variants {
            let st = try_from_notation::<State, Fen>(&p.fen()).unwrap();
            let got: BTreeSet<String> = book.lookup(&st).map(|ms| ms.iter().map(|m| { let f: u8 = m.origin().into(); let t: u8 = m.destination().into(); let mut s = format!("{}{}", sq_name(f), sq_name(t)); if let Some(pr) = m.promotion() { let c: char = pr.into(); s.push(c.to_ascii_lowercase()); } s }).collect()).unwrap_or_default();
            checked += 1;
            if &got != set { bad += 1; if bad < 10 { println!("BOOK differ {} got={:?} want={:?}", p.fen(), got, set); } }
            let legal: BTreeSet<String> = p.legal_moves().iter().map(Pos::lan).collect();
            if !got.is_subset(&legal) { bad += 1; println!("BOOK illegal {} {:?}", p.fen(), got); }
        }
    }
    println!("checked={} ep-stripped-variants={} bad={}", checked, stripped, bad);
}
