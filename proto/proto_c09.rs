#![feature(generic_const_exprs)]
#![allow(incomplete_features)]
use weechess_core::*;
fn walk(sq: u8, occ: u64, dirs: &[(i32,i32)]) -> (u64, u64) {
    // returns (attacks, all ray squares)
    let (f, r) = ((sq%8) as i32, (sq/8) as i32);
    let (mut a, mut rays) = (0u64, 0u64);
    for (df,dr) in dirs { let (mut cf, mut cr) = (f+df, r+dr); let mut blocked=false; while (0..8).contains(&cf) && (0..8).contains(&cr) { let s = (cr*8+cf) as u64; rays |= 1<<s; if !blocked { a |= 1<<s; if occ & (1<<s) != 0 { blocked = true; } } cf+=df; cr+=dr; } }
    (a, rays)
}
fn main() {
    let t = std::time::Instant::now();
    let ortho = [(1,0),(-1,0),(0,1),(0,-1)]; let diag = [(1,1),(1,-1),(-1,1),(-1,-1)];
    let (mut n, mut bad) = (0u64, 0u64);
    let mut x = 0x1234567u64;
    for sq in 0..64u8 {
        let square = Square::try_from(sq).unwrap();
        for (dirs, rook) in [(&ortho, true), (&diag, false)] {
            let (_, rays) = walk(sq, 0, dirs);
            let bits: Vec<u64> = (0..64).filter(|b| rays & (1<<b) != 0).collect();
            for idx in 0..(1u64 << bits.len()) {
                let mut occ = 0u64; for (i,b) in bits.iter().enumerate() { if idx & (1<<i) != 0 { occ |= 1<<b; } }
                for noise in 0..2 {
                    let o = if noise==0 { occ } else { x ^= x<<13; x ^= x>>7; x ^= x<<17; occ | (x & !rays & !(1u64<<sq)) };
                    let (exp, _) = walk(sq, o, dirs);
                    let got: u64 = if rook { AttackGenerator::compute_rook_attacks(square, BitBoard::new(o)) } else { AttackGenerator::compute_bishop_attacks(square, BitBoard::new(o)) }.into();
                    n += 1; if got != exp { bad += 1; if bad < 5 { println!("BAD sq={} rook={} occ={:x}", sq, rook, o); } }
                    let q: u64 = AttackGenerator::compute_queen_attacks(square, BitBoard::new(o)).into();
                    let (e1,_) = walk(sq,o,&ortho); let (e2,_) = walk(sq,o,&diag); if q != e1|e2 { bad += 1; }
                }
            }
        }
    }
    println!("lookups={} bad={} {:?}", n, bad, t.elapsed());
}
