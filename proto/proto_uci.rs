#![feature(generic_const_exprs)]
#![allow(incomplete_features)]
#[path = "../oracle.rs"] mod oracle;
use oracle::*;
use rand::{Rng, SeedableRng};
use std::io::{BufRead, BufReader, Write};
use std::process::{Command, Stdio};
use std::sync::mpsc;
use std::time::Duration;

struct Eng { child: std::process::Child, stdin: std::process::ChildStdin, rx: mpsc::Receiver<String>, log: Vec<String> }
impl Eng {
    fn new(bin: &str) -> Eng {
        let mut child = Command::new(bin).arg("uci").stdin(Stdio::piped()).stdout(Stdio::piped()).stderr(Stdio::piped()).spawn().unwrap();
        let stdin = child.stdin.take().unwrap();
        let out = child.stdout.take().unwrap();
        let err = child.stderr.take().unwrap();
        let (tx, rx) = mpsc::channel();
        let tx2 = tx.clone();
        std::thread::spawn(move || { for l in BufReader::new(out).lines() { if let Ok(l) = l { if tx.send(l).is_err() { break; } } } });
        std::thread::spawn(move || { for l in BufReader::new(err).lines() { if let Ok(l) = l { if tx2.send(format!("ERR {}", l)).is_err() { break; } } } });
        Eng { child, stdin, rx, log: vec![] }
    }
    fn send(&mut self, s: &str) { self.log.push(format!("> {}", s)); let _ = writeln!(self.stdin, "{}", s); let _ = self.stdin.flush(); }
    /// read lines until one satisfies pred; returns all lines read (None on timeout)
    fn until(&mut self, pred: impl Fn(&str) -> bool, timeout: Duration) -> Option<Vec<String>> {
        let mut got = vec![]; let end = std::time::Instant::now() + timeout;
        loop { let left = end.saturating_duration_since(std::time::Instant::now()); match self.rx.recv_timeout(left) { Ok(l) => { self.log.push(format!("< {}", l)); let hit = pred(&l); got.push(l); if hit { return Some(got); } } Err(_) => return None } }
    }
}

fn main() {
    let bin = std::env::args().nth(1).unwrap();
    let seed: u64 = std::env::args().nth(2).unwrap().parse().unwrap();
    let sessions: usize = std::env::args().nth(3).unwrap().parse().unwrap();
    let mut rng = rand_chacha::ChaCha8Rng::seed_from_u64(seed);
    let fens = ["4k3/p6p/Pp4pP/1Pp2pP1/2Pp1P2/3P4/8/4K2R w K - 0 1", "4k3/p6p/Pp4pP/1Pp2pP1/2Pp1P2/3P4/8/4K2R w - - 0 1", "r3k2r/p1ppqpb1/bn2pnp1/3PN3/1p2P3/2N2Q1p/PPPBBPPP/R3K2R w KQkq - 0 1", "r3k2r/p1ppqpb1/bn2pnp1/3PN3/1p2P3/2N2Q1p/PPPBBPPP/R3K2R w - - 0 1", "8/2p5/3p4/KP5r/1R3p1k/8/4P1P1/8 w - - 0 1", "6k1/6Q1/8/8/8/4p3/5q2/7K b - - 0 1", "8/8/8/8/8/2K5/7R/k7 w - - 0 1", "rnbqkbnr/ppp1p1pp/8/3pPp2/8/8/PPPP1PPP/RNBQKBNR w KQkq f6 0 3", "rnbqkbnr/ppp1p1pp/8/3pPp2/8/8/PPPP1PPP/RNBQKBNR w KQkq - 0 3"];
    let (mut gos, mut bad, mut book) = (0usize, 0usize, 0usize);
    for s in 0..sessions {
        let mut e = Eng::new(&bin);
        e.send("uci");
        if e.until(|l| l == "uciok", Duration::from_secs(20)).is_none() { bad += 1; println!("no uciok"); }
        let mut outstanding: Option<Pos> = None;
        let mut cur = Pos::start();
        let mut fail = |e: &Eng, msg: String| { println!("VIOLATION session {} : {}", s, msg); for l in e.log.iter().rev().take(25).rev() { println!("    {}", l); } };
        let steps = rng.gen_range(3..12);
        let mut failed = false;
        for _ in 0..steps {
            // position
            let mut pos; let mut cmd;
            if rng.gen_bool(0.5) { pos = Pos::start(); cmd = String::from("position startpos"); } else { let f = fens[rng.gen_range(0..fens.len())]; pos = Pos::from_fen(f).unwrap(); cmd = format!("position fen {}", f); }
            let n = if rng.gen_bool(0.3) { 0 } else { rng.gen_range(0..30) };
            let mut mv = vec![];
            for _ in 0..n { let lm = pos.legal_moves(); if lm.is_empty() { break; } let m = lm[rng.gen_range(0..lm.len())]; if pos.make(&m).legal_moves().is_empty() { break; } mv.push(Pos::lan(&m)); pos = pos.make(&m); }
            if !mv.is_empty() { cmd.push_str(" moves "); cmd.push_str(&mv.join(" ")); }
            // `position` is a trigger for an outstanding go
            e.send(&cmd); e.send("isready");
            let lines = match e.until(|l| l == "readyok", Duration::from_secs(60)) { Some(l) => l, None => { fail(&e, "no readyok after position".into()); failed = true; break; } };
            let bms: Vec<&String> = lines.iter().filter(|l| l.starts_with("bestmove")).collect();
            match (&outstanding, bms.len()) {
                (Some(p), 1) => { let m = bms[0].split_whitespace().nth(1).unwrap_or(""); if !p.legal_moves().iter().any(|x| Pos::lan(x) == m) { fail(&e, format!("illegal bestmove {} in {}", m, p.fen())); failed = true; break; } }
                (None, 0) => {}
                (o, k) => { fail(&e, format!("bestmove count {} with outstanding={}", k, o.is_some())); failed = true; break; }
            }
            outstanding = None; cur = pos.clone();
            if rng.gen_bool(0.15) { e.send("ucinewgame"); }
            // go
            let kind = rng.gen_range(0..4);
            let go = match kind { 0 => format!("go depth {}", rng.gen_range(1..5)), 1 => format!("go movetime {}", rng.gen_range(0..400)), 2 => "go".to_string(), _ => format!("go depth {}", rng.gen_range(1..4)) };
            e.send(&go); gos += 1;
            outstanding = Some(cur.clone());
            match rng.gen_range(0..4) {
                0 => { // wait for the answer itself
                    let lines = match e.until(|l| l.starts_with("bestmove"), Duration::from_secs(60)) { Some(l) => l, None => { fail(&e, format!("no bestmove for '{}' in {}", go, cur.fen())); failed = true; break; } };
                    if lines.iter().any(|l| l.contains("book move")) { book += 1; }
                    let m = lines.last().unwrap().split_whitespace().nth(1).unwrap_or("").to_string();
                    if !cur.legal_moves().iter().any(|x| Pos::lan(x) == m) { fail(&e, format!("illegal bestmove {} in {}", m, cur.fen())); failed = true; break; }
                    outstanding = None;
                }
                1 => { std::thread::sleep(Duration::from_millis(rng.gen_range(0..300))); e.send("stop"); e.send("isready");
                    let lines = match e.until(|l| l == "readyok", Duration::from_secs(60)) { Some(l) => l, None => { fail(&e, "no readyok after stop".into()); failed = true; break; } };
                    let bms: Vec<&String> = lines.iter().filter(|l| l.starts_with("bestmove")).collect();
                    if bms.len() != 1 { fail(&e, format!("bestmove count {} after stop", bms.len())); failed = true; break; }
                    let m = bms[0].split_whitespace().nth(1).unwrap_or(""); if !cur.legal_moves().iter().any(|x| Pos::lan(x) == m) { fail(&e, format!("illegal bestmove {} in {}", m, cur.fen())); failed = true; break; }
                    outstanding = None; }
                2 => { e.send("isready");
                    let lines = match e.until(|l| l == "readyok", Duration::from_secs(60)) { Some(l) => l, None => { fail(&e, "no readyok during search".into()); failed = true; break; } };
                    let bms: Vec<&String> = lines.iter().filter(|l| l.starts_with("bestmove")).collect();
                    if bms.len() > 1 { fail(&e, format!("bestmove count {} before readyok", bms.len())); failed = true; break; }
                    if bms.len() == 1 { let m = bms[0].split_whitespace().nth(1).unwrap_or(""); if !cur.legal_moves().iter().any(|x| Pos::lan(x) == m) { fail(&e, format!("illegal bestmove {} in {}", m, cur.fen())); failed = true; break; } outstanding = None; } }
                _ => { std::thread::sleep(Duration::from_millis(rng.gen_range(0..100))); }
            }
        }
        if !failed {
            e.send("quit");
            drop(std::mem::replace(&mut e.stdin, unsafe_dummy()));
            let st = wait(&mut e.child, Duration::from_secs(60));
            // drain
            let mut rest = vec![]; while let Ok(l) = e.rx.recv_timeout(Duration::from_millis(200)) { rest.push(l); }
            let k = rest.iter().filter(|l| l.starts_with("bestmove")).count();
            if outstanding.is_some() && k != 1 { bad += 1; println!("VIOLATION session {}: {} bestmove at quit with outstanding go", s, k); }
            if outstanding.is_none() && k != 0 { bad += 1; println!("VIOLATION session {}: {} unsolicited bestmove at quit", s, k); }
            if st != Some(0) { bad += 1; println!("VIOLATION session {}: exit status {:?}", s, st); }
        } else { bad += 1; let _ = e.child.kill(); }
    }
    println!("sessions={} gos={} book={} bad={}", sessions, gos, book, bad);
}
fn unsafe_dummy() -> std::process::ChildStdin { let mut c = Command::new("true").stdin(Stdio::piped()).spawn().unwrap(); let s = c.stdin.take().unwrap(); let _ = c.wait(); s }
fn wait(c: &mut std::process::Child, t: Duration) -> Option<i32> { let end = std::time::Instant::now() + t; loop { if let Ok(Some(s)) = c.try_wait() { return s.code(); } if std::time::Instant::now() > end { let _ = c.kill(); return None; } std::thread::sleep(Duration::from_millis(20)); } }
