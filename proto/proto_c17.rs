#![feature(generic_const_exprs)]
#![allow(incomplete_features)]
#[path = "../oracle.rs"] mod oracle;
use oracle::*;
use std::collections::HashSet;
use weechess_core::{notation::{try_from_notation, Fen}, *};
use weechess_engine::{eval::{Evaluator, Evaluation}, searcher::{*, verif::*}};
use rand::{Rng, SeedableRng};

type Key = ([i8;64], bool);
fn k(p: &Pos) -> Key { (p.b, p.wtm) }
/// attacker (side to move) can force mate within n plies; positions in `f` (at ply>0) are draws
type Memo = std::collections::HashMap<(Key, usize), bool>;
fn win(p: &Pos, n: usize, f: &HashSet<Key>, memo: &mut Memo) -> Option<Vec<OMove>> {
    if n == 0 { return None; }
    let mut good = vec![];
    for m in p.legal_moves() { let c = p.make(&m); if f.contains(&k(&c)) { continue; } if lost(&c, n-1, f, memo) { good.push(m); } }
    if good.is_empty() { None } else { Some(good) }
}
fn wins(p: &Pos, n: usize, f: &HashSet<Key>, memo: &mut Memo) -> bool {
    if n == 0 { return false; }
    if let Some(v) = memo.get(&(k(p), n)) { return *v; }
    let mut r = false;
    for m in p.legal_moves() { let c = p.make(&m); if f.contains(&k(&c)) { continue; } if lost(&c, n-1, f, memo) { r = true; break; } }
    memo.insert((k(p), n), r); r
}
fn lost(p: &Pos, n: usize, f: &HashSet<Key>, memo: &mut Memo) -> bool {
    if let Some(v) = memo.get(&(k(p), n + 1000)) { return *v; }
    let ms = p.legal_moves();
    let r = if ms.is_empty() { p.in_check(p.wtm) } else if n == 0 { false } else { ms.iter().all(|m| { let c = p.make(m); !f.contains(&k(&c)) && wins(&c, n-1, f, memo) }) };
    memo.insert((k(p), n + 1000), r); r
}
fn main() {
    let seed: u64 = std::env::args().nth(1).unwrap().parse().unwrap();
    let tries: usize = std::env::args().nth(2).unwrap().parse().unwrap();
    let mut rng = rand_chacha::ChaCha8Rng::seed_from_u64(seed);
    let ev = Evaluator::default();
    let (mut cases, mut searches, mut bad) = (0usize,0usize,0usize);
    let t = std::time::Instant::now();
    for _ in 0..tries {
        // random KRK / KQK position, white to move (or mirrored)
        let mut b = [0i8;64];
        let (wk, bk, x) = (rng.gen_range(0..64usize), rng.gen_range(0..64usize), rng.gen_range(0..64usize));
        if wk==bk || wk==x || bk==x { continue; }
        b[wk]=6; b[bk]=-6; b[x]= if rng.gen_bool(0.5) {4} else {5};
        let mut p = Pos { b, wtm: true, castle: 0, ep: None, half: 0, full: 1 };
        if p.in_check(false) { continue; }
        if (wk as i32 % 8 - bk as i32 % 8).abs() <= 1 && (wk as i32 / 8 - bk as i32 / 8).abs() <= 1 { continue; }
        if rng.gen_bool(0.5) { p = p.mirror(); }
        let root = k(&p);
        let mut f0 = HashSet::new(); f0.insert(root);
        let mut memo0 = Memo::new(); let Some(w) = win(&p, 5, &f0, &mut memo0) else { continue; };
        if w.len() < 2 { continue; }
        for m1 in w.iter() {
            let rec = p.make(m1);
            let mut f = f0.clone(); f.insert(k(&rec));
            // shortest n2 avoiding F
            let mut n2 = None; let mut keep = vec![];
            let mut memo = Memo::new(); for n in [1usize,3,5] { if let Some(g) = win(&p, n, &f, &mut memo) { n2 = Some(n); keep = g; break; } }
            let all_keep = win(&p, 7, &f, &mut memo).unwrap_or_default();
            let Some(n2) = n2 else { continue; };
            cases += 1;
            let st = try_from_notation::<State, Fen>(&p.fen()).unwrap();
            let recst = try_from_notation::<State, Fen>(&rec.fen()).unwrap();
            for d in [n2, n2+1, n2+2] { for workers in [1usize, 4] {
                let mut art = small_artifact(rng.gen(), 4, 64);
                record_history(&mut art, &recst);
                let mut last = None;
                let _ = analyze_sync(st.clone(), &ev, rng.gen(), Some(d), &Cancel::new(), Some(art), Some(workers), &mut |e| { if let StatusEvent::BestMove{line,evaluation}=e { last=Some((line,evaluation)); } });
                searches += 1;
                let (line, e) = last.unwrap();
                let f0u: u8 = line[0].origin().into(); let t0: u8 = line[0].destination().into();
                // the first move must keep a forced mate under F at *some* bound (check up to 7 plies)
                let ok_move = all_keep.iter().any(|g| g.from==f0u && g.to==t0);
                let _ = &keep;
                let why = if e < Evaluation::POS_INF { "NOEVAL" } else if f0u==m1.from && t0==m1.to { "REPEAT" } else if !ok_move { "BADMOVE" } else { "" };
                if why != "" { bad += 1; if bad < 12 { println!("{} {} rec={} n2={} d={} w={} eval={:?} first={}{}", why, p.fen(), Pos::lan(m1), n2, d, workers, e, sq_name(f0u), sq_name(t0)); } }
            }}
        }
    }
    println!("cases={} searches={} bad={} {:?}", cases, searches, bad, t.elapsed());
}
