#![feature(generic_const_exprs)]
#![allow(incomplete_features)]
use std::sync::{Arc, atomic::{AtomicU64, Ordering}};
use weechess_core::*;
use weechess_engine::searcher::verif::*;
fn main() {
    let threads: usize = std::env::args().nth(1).unwrap().parse().unwrap();
    let ops: usize = std::env::args().nth(2).unwrap().parse().unwrap();
    let t = Arc::new(Table::new(2, 1));
    let clock = Arc::new(AtomicU64::new(0));
    let mv = Move::by_moving(PieceIndex::new(Color::White, Piece::Knight), Square::B1, Square::C3);
    let hs: Vec<_> = (0..threads).map(|i| { let t = t.clone(); let clock = clock.clone(); std::thread::spawn(move || {
        let mut log = vec![];
        let mut x = 0x9e3779b97f4a7c15u64.wrapping_mul(i as u64 + 1);
        for n in 0..ops {
            x ^= x << 13; x ^= x >> 7; x ^= x << 17;
            let key = (x % 12) * 2; // all route to table 0, bucket 0
            let c = clock.fetch_add(1, Ordering::SeqCst);
            if x & 0x100 == 0 {
                let val = (i * 100000 + n) as i32;
                t.insert(key, TableEntry { performed_move: mv, evaluation: val, depth: 0, max_depth: 1, kind: 0 });
                log.push((c, clock.fetch_add(1, Ordering::SeqCst), key, Some(val), None));
            } else {
                let r = t.find(key).map(|e| e.evaluation);
                log.push((c, clock.fetch_add(1, Ordering::SeqCst), key, None, Some(r)));
            }
        }
        log
    })}).collect();
    let mut total = 0;
    for h in hs { total += h.join().unwrap().len(); }
    let occ = t.occupied();
    println!("ops={} entries={} occupied={} max={}", total, t.entries(), occ.len(), t.max_entries());
    assert_eq!(t.entries(), occ.len());
}
