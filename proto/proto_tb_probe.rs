#![feature(generic_const_exprs)]
#![allow(incomplete_features)]
use weechess_core::{notation::{into_notation, lan::Lan, Fen}, *};
use weechess_engine::{eval::{Evaluator, Evaluation}, searcher::{*, verif::*}};

fn mk(wk: u8, bk: u8, x: u8, xp: Piece, stm: Color) -> State {
    let mut map = Board::empty_map();
    map[Square::try_from(wk).unwrap()] = PieceIndex::new(Color::White, Piece::King);
    map[Square::try_from(bk).unwrap()] = PieceIndex::new(Color::Black, Piece::King);
    map[Square::try_from(x).unwrap()] = PieceIndex::new(Color::White, xp);
    State::new(Board::from(&map), stm, utils::ArrayMap::filled(CastleRights::NONE), None, Clock::default())
}
fn idx(wk: u8, bk: u8, x: u8, stm: usize) -> usize { (((wk as usize * 64) + bk as usize) * 64 + x as usize) * 2 + stm }
fn sq(b: BitBoard) -> u8 { b.first_one().unwrap() as u8 }
fn key(s: &State, xp: Piece) -> Option<usize> {
    let b = s.board();
    let xs = b.piece_occupancy(PieceIndex::new(Color::White, xp));
    if xs.none() { return None; }
    Some(idx(sq(b.piece_occupancy(PieceIndex::new(Color::White, Piece::King))), sq(b.piece_occupancy(PieceIndex::new(Color::Black, Piece::King))), sq(xs), if s.turn_to_move()==Color::White {0} else {1}))
}

const UNK: i16 = -1; const DRAW: i16 = -2; const ILLEGAL: i16 = -3;

fn main() {
    let args: Vec<String> = std::env::args().collect();
    let xp = if args.get(1).map(|s| s.as_str()) == Some("Q") { Piece::Queen } else { Piece::Rook };
    let maxn: i16 = args.get(2).and_then(|s| s.parse().ok()).unwrap_or(5);
    let stride: usize = args.get(3).and_then(|s| s.parse().ok()).unwrap_or(7);
    let n = 64*64*64*2;
    let mut val = vec![UNK; n];
    let mut succ: Vec<Vec<u32>> = vec![vec![]; n]; // u32::MAX = capture of X (draw)
    let t = std::time::Instant::now();
    for wk in 0..64u8 { for bk in 0..64u8 { for x in 0..64u8 { for stm in 0..2usize {
        let i = idx(wk,bk,x,stm);
        if wk==bk || wk==x || bk==x { val[i]=ILLEGAL; continue; }
        let color = if stm==0 {Color::White} else {Color::Black};
        let s = mk(wk,bk,x,xp,color);
        // side not to move must not be in check
        if s.board().is_check(!color) { val[i]=ILLEGAL; continue; }
        let ms = MoveGenerator::compute_legal_moves(&s);
        if ms.is_empty() { val[i] = if s.is_check() { 0 } else { DRAW }; if stm==0 { val[i]=DRAW; } continue; }
        for m in ms.moves() { succ[i].push(match key(&m.1, xp) { Some(k)=>k as u32, None=>u32::MAX }); }
    }}}}
    eprintln!("gen {:?}", t.elapsed());
    // retrograde
    let mut d = 0i16;
    loop {
        let mut changed = false;
        d += 1;
        for i in 0..n {
            if val[i] != UNK { continue; }
            let stm = i & 1;
            if stm == 0 {
                // white wins in d if some succ is black-lost with val d-1
                if succ[i].iter().any(|&k| k!=u32::MAX && val[k as usize]==d-1) { val[i]=d; changed=true; }
            } else {
                // black lost in d if all succ are white wins with val <= d-1 and max == d-1
                if succ[i].iter().all(|&k| k!=u32::MAX && val[k as usize]>=0 && val[k as usize] <= d-1 && (val[k as usize] & 1)==1) { val[i]=d; changed=true; }
            }
        }
        if !changed && d > 40 { break; }
        if d > 80 { break; }
    }
    eprintln!("retro {:?} maxd={}", t.elapsed(), val.iter().max().unwrap());
    let mut hist = std::collections::BTreeMap::new();
    for v in val.iter() { *hist.entry(*v).or_insert(0usize) += 1; }
    eprintln!("{:?}", hist);


    if args.get(4).map(|s| s.as_str()) == Some("c17") {
        let ev = Evaluator::default();
        let (mut tested, mut fail_eval, mut fail_rep, mut fail_move, mut shown) = (0usize,0usize,0usize,0usize,0);
        for wk in 0..64u8 { for bk in 0..64u8 { for x in 0..64u8 {
            let i = idx(wk,bk,x,0);
            if (i/2) % stride != 0 { continue; }
            let v = val[i];
            if !(v>=1 && v<=maxn) { continue; }
            let s = mk(wk,bk,x,xp,Color::White);
            let ms = MoveGenerator::compute_legal_moves(&s);
            let kids: Vec<(Move, State, i16)> = ms.moves().iter().map(|m| (m.0, m.1.clone(), key(&m.1,xp).map(|k| val[k]).unwrap_or(DRAW))).collect();
            let winning: Vec<&(Move,State,i16)> = kids.iter().filter(|k| k.2>=0 && k.2+1<=maxn).collect();
            if winning.len() < 2 { continue; }
            for rec in winning.iter() {
                // best alternative distance
                let alt = winning.iter().filter(|k| k.0 != rec.0).map(|k| k.2+1).min().unwrap();
                for dd in [alt as usize, alt as usize + 1, alt as usize + 2] { for workers in [1usize, 4] {
                    let mut art = small_artifact(wk as u64*131+dd as u64, 4, 64);
                    record_history(&mut art, &rec.1);
                    let mut last=None;
                    let _ = analyze_sync(s.clone(), &ev, i as u64 ^ 0x9e37, Some(dd), &Cancel::new(), Some(art), Some(workers), &mut |e| { if let StatusEvent::BestMove{line,evaluation}=e { last=Some((line,evaluation)); } });
                    tested+=1;
                    let (line,e) = last.unwrap();
                    let mv=line[0];
                    let child = kids.iter().find(|k| k.0==mv).unwrap().2;
                    let bad = if e < Evaluation::POS_INF { fail_eval+=1; "NOEVAL" } else if mv==rec.0 { fail_rep+=1; "REPEAT" } else if !(child>=0) { fail_move+=1; "BADMOVE" } else { "" };
                    if bad!="" && shown<15 { shown+=1; println!("{} dtm={} alt={} d={} w={} {} rec={} eval={} line={}", bad, v, alt, dd, workers, into_notation::<_,Fen>(&s), into_notation::<_,Lan>(&rec.0), e, into_notation::<_,Lan>(&&line[..])); }
                }}
            }
        }}}
        println!("c17 tested={} fail_eval={} fail_rep={} fail_move={} {:?}", tested, fail_eval, fail_rep, fail_move, t.elapsed());
        return;
    }
    // test searches
    let ev = Evaluator::default();
    let mut tested=0usize; let mut fail_eval=0usize; let mut fail_move=0usize; let mut shown=0;
    let mut false_claim=0usize;
    let mode = args.get(4).map(|s| s.as_str()).unwrap_or("complete");
    for wk in 0..64u8 { for bk in 0..64u8 { for x in 0..64u8 {
        let i = idx(wk,bk,x,0);
        if (i/2) % stride != 0 { continue; }
        let v = val[i];
        if mode=="complete" { if !(v>=1 && v<=maxn) { continue; } } else { if v==ILLEGAL { continue; } }
        let s = mk(wk,bk,x,xp,Color::White);
        let depths: Vec<usize> = if mode=="complete" { vec![v as usize, v as usize+1, v as usize+2] } else { vec![1,2,3,4,5] };
        for dd in depths { for workers in [1usize,4] {
            let art = small_artifact(wk as u64*131+dd as u64, 4, 64);
            let mut last=None;
            let _ = analyze_sync(s.clone(), &ev, i as u64 ^ 0x9e37, Some(dd), &Cancel::new(), Some(art), Some(workers), &mut |e| { if let StatusEvent::BestMove{line,evaluation}=e { last=Some((line,evaluation)); } });
            tested+=1;
            let (line, e) = last.unwrap();
            let mv = line[0];
            let ns = State::by_performing_move(&s,&mv).unwrap();
            let child = key(&ns,xp).map(|k| val[k]).unwrap_or(DRAW);
            if mode=="complete" {
                if e < Evaluation::POS_INF { fail_eval+=1; if shown<15 { shown+=1; println!("NOEVAL dtm={} d={} w={} {} eval={} line={}", v, dd, workers, into_notation::<_,Fen>(&s), e, into_notation::<_,Lan>(&&line[..])); } }
                else if !(child>=0) { fail_move+=1; if shown<15 { shown+=1; println!("BADMOVE dtm={} d={} w={} {} eval={} line={}", v, dd, workers, into_notation::<_,Fen>(&s), e, into_notation::<_,Lan>(&&line[..])); } }
            } else {
                if e >= Evaluation::POS_INF && !(v>=1) { false_claim+=1; if shown<15 { shown+=1; println!("FALSECLAIM tb={} d={} w={} {} eval={} line={}", v, dd, workers, into_notation::<_,Fen>(&s), e, into_notation::<_,Lan>(&&line[..])); } }
                if e >= Evaluation::POS_INF && v>=1 && !(child>=0) { fail_move+=1; if shown<15 { shown+=1; println!("BADMOVE2 tb={} d={} w={} {} eval={} line={}", v, dd, workers, into_notation::<_,Fen>(&s), e, into_notation::<_,Lan>(&&line[..])); } }
            }
        }}
    }}}
    println!("tested={} fail_eval={} fail_move={} false_claim={} {:?}", tested, fail_eval, fail_move, false_claim, t.elapsed());
}
