#![feature(generic_const_exprs)]
#![allow(incomplete_features)]
use weechess_core::{notation::{into_notation, Fen}, *};
use weechess_engine::{eval::Evaluator, searcher::{*, verif::*}};
use rand::{Rng, SeedableRng};
fn main() {
    let seed: u64 = std::env::args().nth(1).unwrap().parse().unwrap();
    let n: usize = std::env::args().nth(2).unwrap().parse().unwrap();
    let mut rng = rand_chacha::ChaCha8Rng::seed_from_u64(seed);
    let ev = Evaluator::default();
    let t = std::time::Instant::now();
    let (mut searches, mut lines, mut bad) = (0usize,0usize,0usize);
    let mut art: Option<SearchArtifact> = None;
    for g in 0..n {
        let mut s = State::default();
        let tables = [1usize,1,2,3,8][rng.gen_range(0..5)];
        let buckets = [1usize,1,2,5,64][rng.gen_range(0..5)];
        if rng.gen_bool(0.5) { art = Some(small_artifact(rng.gen(), tables, buckets)); }
        for ply in 0..rng.gen_range(1..120) {
            let ms = MoveGenerator::compute_legal_moves(&s);
            if ms.is_empty() { break; }
            if rng.gen_bool(0.15) {
                let depth = rng.gen_range(1..=4);
                let workers = [1usize,2,3,4,8,16,32][rng.gen_range(0..7)];
                let mut evs = vec![];
                let a = analyze_sync(s.clone(), &ev, rng.gen(), Some(depth), &Cancel::new(), art.take().or_else(|| Some(small_artifact(1,tables,buckets))), Some(workers), &mut |e| { if let StatusEvent::BestMove{line,..}=e { evs.push(line); } });
                art = Some(a);
                searches+=1;
                if evs.is_empty() { bad+=1; println!("NOREPORT {}", into_notation::<_,Fen>(&s)); }
                for line in evs { lines+=1;
                    let mut cur = s.clone();
                    if line.is_empty() { bad+=1; println!("EMPTY"); }
                    for mv in line { let lm = MoveGenerator::compute_legal_moves(&cur); match lm.moves().iter().find(|m| m.0==mv) { Some(r)=>{cur=r.1.clone();}, None=>{bad+=1; println!("ILLEGAL {} {} g={} ply={}", into_notation::<_,Fen>(&cur), mv, g, ply); break;} } }
                }
            }
            let m = &ms.moves()[rng.gen_range(0..ms.moves().len())];
            s = m.1.clone();
        }
    }
    println!("searches={} lines={} bad={} {:?}", searches, lines, bad, t.elapsed());
}
