#![feature(generic_const_exprs)]
#![allow(incomplete_features)]
use std::collections::{HashMap, BTreeSet};
use weechess_core::{notation::{try_from_notation, Fen}, *};
use weechess_engine::{eval::Evaluator, searcher::{*, verif::*}};
use rand::{Rng, SeedableRng};
fn main() {
    let mut rng = rand_chacha::ChaCha8Rng::seed_from_u64(5);
    // ---- C15 sequential exact audit
    let mv = |i: u64| Move::by_moving(PieceIndex::new(Color::White, Piece::Knight), Square::try_from((i % 64) as u8).unwrap(), Square::try_from(((i / 64) % 64) as u8).unwrap());
    let (mut ops, mut bad) = (0usize, 0usize);
    for (tables, buckets) in [(1usize,1usize),(1,2),(2,1),(3,5),(8,4),(128,2)] {
        let t = Table::new(tables, buckets);
        let universe: Vec<u64> = (0..60).map(|i| match i % 4 { 0 => i as u64 * (tables*buckets) as u64, 1 => rng.gen(), 2 => (i as u64) << 56, _ => u64::MAX - i as u64 }).collect();
        let mut last: HashMap<u64, i32> = HashMap::new();
        let mut prev: HashMap<(usize,usize), BTreeSet<u64>> = HashMap::new();
        for n in 0..4000 {
            let k = universe[rng.gen_range(0..universe.len())];
            let val = n as i32;
            t.insert(k, TableEntry { performed_move: mv(rng.gen()), evaluation: val, depth: 1, max_depth: 2, kind: (n % 3) as u8 });
            last.insert(k, val); ops += 1;
            let occ = t.occupied();
            let mut cur: HashMap<(usize,usize), BTreeSet<u64>> = HashMap::new();
            for (tb, b, _s, key) in occ.iter() { if !cur.entry((*tb,*b)).or_default().insert(*key) { bad += 1; println!("DUP key in bucket"); } }
            if t.entries() != occ.len() || occ.len() > t.max_entries() { bad += 1; println!("COUNT {} {} {}", t.entries(), occ.len(), t.max_entries()); }
            // exactly one bucket changed, by the allowed transition
            let where_k: Vec<_> = cur.iter().filter(|(_, s)| s.contains(&k)).map(|(b, _)| *b).collect();
            if where_k.len() != 1 { bad += 1; println!("key in {} buckets", where_k.len()); continue; }
            let bk = where_k[0];
            for (b, s) in cur.iter() { let p = prev.get(b).cloned().unwrap_or_default(); if *b != bk { if *s != p { bad += 1; println!("other bucket changed"); } } else {
                let mut want = p.clone(); want.insert(k);
                if want.len() <= 8 { if *s != want { bad += 1; println!("bucket != old+k"); } } else { let missing: Vec<_> = want.difference(s).collect(); if s.len() != 8 || missing.len() != 1 || *missing[0] == k || !s.is_subset(&want) { bad += 1; println!("bad eviction"); } } } }
            for (b, p) in prev.iter() { if !cur.contains_key(b) && !p.is_empty() { bad += 1; println!("bucket vanished"); } }
            // retrievability + latest value
            if n % 16 == 0 { for u in universe.iter() { let present = cur.values().any(|s| s.contains(u)); match t.find(*u) { Some(e) => { if !present || Some(&e.evaluation) != last.get(u) { bad += 1; println!("find mismatch"); } } None => if present { bad += 1; println!("present but not found"); } } } }
            prev = cur;
        }
    }
    println!("C15 sequential: ops={} bad={}", ops, bad);
    // ---- C19
    let ev = Evaluator::default();
    let fens = ["r3k2r/p1ppqpb1/bn2pnp1/3PN3/1p2P3/2N2Q1p/PPPBBPPP/R3K2R w KQkq - 0 1", "8/2p5/3p4/KP5r/1R3p1k/8/4P1P1/8 w - - 0 1", "rnbq1k1r/pp1Pbppp/2p5/8/2B5/8/PPP1NnPP/RNBQK2R w KQ - 1 8"];
    let mut diff = 0;
    for f in fens { for seed in [1u64, 77] { for d in [3usize, 5] {
        let run = || { let mut out = vec![]; let _ = analyze_sync(try_from_notation::<State, Fen>(f).unwrap(), &ev, seed, Some(d), &Cancel::new(), Some(small_artifact(seed, 8, 4096)), Some(1), &mut |e| out.push(format!("{:?}", e))); out };
        let (a, b) = (run(), run()); if a != b { diff += 1; println!("C19 DIFF {} seed={} d={}", f, seed, d); }
    }}}
    // public path, depth 3, twice (1 GiB each)
    let run_pub = |seed: u64| { let (h, _tx, rx) = Searcher::new().analyze(try_from_notation::<State, Fen>(fens[0]).unwrap(), seed, Evaluator::default(), Some(3), None); let out: Vec<String> = rx.iter().map(|e| format!("{:?}", e)).collect(); let _ = h.join(); out };
    if run_pub(9) != run_pub(9) { diff += 1; println!("C19 DIFF public"); }
    println!("C19: diffs={}", diff);
}
