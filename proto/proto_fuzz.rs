#![feature(generic_const_exprs)]
#![allow(incomplete_features)]
use weechess_core::{notation::{try_from_notation, Fen, San}, *};
use rand::{Rng, SeedableRng, seq::SliceRandom};
fn main() {
    let seed: u64 = std::env::args().nth(1).unwrap().parse().unwrap();
    let n: usize = std::env::args().nth(2).unwrap().parse().unwrap();
    let mut rng = rand_chacha::ChaCha8Rng::seed_from_u64(seed);
    std::panic::set_hook(Box::new(|_| {}));
    let ranks = ["8","8","pppppppp","PPPPPPPP","rnbqkbnr","RNBQKBNR","4k3","4K3","1p1P1n1Q","88","9","44","71","17","pppppppp1","","8888","k","K7","3k4","ÀÁ"];
    let sides = ["w","b","|","W","-",""," "];
    let castles = ["-","KQkq","K","Q","k","q","KQ","kq","qkQK","KK","||","K|q","Kx","KQkqK"];
    let eps = ["-","e3","e6","a3","h6","e4","i3","e9","E3","é3","3e",""];
    let nums = ["0","1","50","100","18446744073709551615","18446744073709551616","99999999999999999999999","-1","+1","٣","１","00","0x10",""];
    let seps = [" "," "," "," ","\t","  ","\n","\u{a0}"];
    let sanbits = ["N","B","R","Q","K","P","a","b","c","d","e","f","g","h","1","2","3","4","5","6","7","8","x","=","+","#","O-O","O-O-O","0-0","-","e.p.","!","?","é","♞"," "];
    let (mut fen_ok, mut fen_err, mut san_ok, mut san_err, mut panics) = (0usize,0usize,0usize,0usize,0usize);
    for i in 0..n {
        // FEN
        let mut rs: Vec<String> = (0..if rng.gen_bool(0.9) {8} else {rng.gen_range(0..12)}).map(|_| { let mut r = ranks[rng.gen_range(0..ranks.len())].to_string(); if rng.gen_bool(0.05) { r = "8".repeat(rng.gen_range(1..400)); } if rng.gen_bool(0.03) { r = "1".repeat(rng.gen_range(1..600)); } r }).collect();
        if rng.gen_bool(0.1) { rs.shuffle(&mut rng); }
        let fields = [rs.join("/"), sides[rng.gen_range(0..sides.len())].to_string(), castles[rng.gen_range(0..castles.len())].to_string(), eps[rng.gen_range(0..eps.len())].to_string(), nums[rng.gen_range(0..nums.len())].to_string(), nums[rng.gen_range(0..nums.len())].to_string()];
        let k = if rng.gen_bool(0.9) {6} else {rng.gen_range(0..7)};
        let mut fen = String::new();
        for (j,f) in fields.iter().take(k).enumerate() { if j>0 { fen.push_str(seps[rng.gen_range(0..seps.len())]); } fen.push_str(f); }
        if rng.gen_bool(0.05) { fen.push_str(" extra"); }
        let r = std::panic::catch_unwind(|| try_from_notation::<State, Fen>(&fen).map(|s| { let ms = MoveGenerator::compute_legal_moves(&s); ms.moves().len() }));
        match r { Ok(Ok(_)) => fen_ok += 1, Ok(Err(_)) => fen_err += 1, Err(_) => { panics += 1; if panics < 15 { println!("PANIC fen/movegen {:?}", &fen[..fen.len().min(120)]); } } }
        // SAN
        let len = rng.gen_range(0..9); let mut san = String::new(); for _ in 0..len { san.push_str(sanbits[rng.gen_range(0..sanbits.len())]); }
        let r = std::panic::catch_unwind(|| try_from_notation::<MoveQuery, San>(&san).is_ok());
        match r { Ok(true) => san_ok += 1, Ok(false) => san_err += 1, Err(_) => { panics += 1; if panics < 15 { println!("PANIC san {:?}", san); } } }
        let _ = i;
    }
    println!("fen_ok={} fen_err={} san_ok={} san_err={} panics={}", fen_ok, fen_err, san_ok, san_err, panics);
}
